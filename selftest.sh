#!/bin/bash
# Self-tests of the machinery (DESIGN 2.8).  Not part of the registered checks; run by hand after changing the framework.
#   ./selftest.sh determinism [N]   every property: N seeds twice (16 lanes vs 4 lanes), again under another PYTHONHASHSEED,
#                                   event digests + verdicts must agree
#   ./selftest.sh seeded            every kept seeded change must be reported by the check(s) named in its meta.json
cd "$(dirname "$0")"
case "$1" in
 determinism)
  n=${2:-200}
  for p in C03 C04 C06 C10 C11 C12 C18 C29 C30; do
    ./check $p --selftest-determinism -n $n --out /tmp/det_$p.json 2>&1 | tail -1
    VERIF_HASHSEED=12345 ./check $p --selftest-determinism -n $n --compare /tmp/det_$p.json 2>&1 | tail -2
  done;;
 seeded) ./run_seeded.sh;;
 *) echo "usage: $0 determinism [N] | seeded";;
esac
