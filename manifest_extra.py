"""per-property MANIFEST entries, appended as the checks are built"""


def c10(check):
    check("C10", "exploration",
          "Seeded search over refinement histories: each run is a real run() execution whose refined cells are steered by a "
          "stub calculator (hot spot, two hot spots, alternating, random, natural), over meshes, adpt_fac, symmetry settings, "
          "regular and tetrahedral grids, all four storage modes, serial or simulated ray, with all files behind SimDisk. After "
          "every iteration the saved/returned integral is recomputed from scratch as sum factor_i*payload_i; saved npz and per-K "
          "pickle files are read back. A separate run class injects ENOSPC/EIO (may fail, never wrong). Evidence over sampled "
          "histories, not a proof.",
          "Payload of a K-point is what the driver received at KpointBZ.set_result; equality is 1e-10 of the natural scale of the "
          "sum; stub calculators stand in for Data_K in most runs (real Data_K_R + static calculators in a fraction).",
          "deterministic simulation: seeded refinement histories and storage modes, weighted-sum reference model evaluated "
          "after every iteration, I/O fault injection, minimised replay files",
          "DESIGN.md §4 C10")


def c11(check):
    check("C11", "fault_enumeration",
          "Quick tier: seeded search over restart histories - an uninterrupted reference run(T) against 2-4 segments that end by "
          "returning or by a simulated process kill at an iteration boundary, restarted with restart=True under changing storage "
          "mode / Klist_part / serial-or-simulated-ray and every directory listing order policy; every reported iteration is compared "
          "with the reference. Plus kills before an arbitrary intercepted operation with torn-write cuts (relaxed oracle: restart may "
          "raise, never report wrong data). Thorough tier: additionally, for each sampled small history EVERY intercepted operation of "
          "the crashing segment (x torn-write cuts) is used as crash site in turn - exhaustive over the crash sites of that history, "
          "sampled over histories.",
          "Process-kill model (OS-handed bytes survive, part of the user buffer survives); power loss not modelled; a restarted segment "
          "gets fresh objects but shares the interpreter; stub calculators with generic (tie-free) payload.",
          "deterministic simulation with crash injection: seeded restart histories, crash-site sweep per history, uninterrupted "
          "run as reference model, listing-order fault, minimised replay files",
          "DESIGN.md §4 C11")


EXTRA = [c10, c11]
