"""per-property MANIFEST entries, appended as the checks are built"""
EXTRA = []
