"""per-property MANIFEST entries, appended as the checks are built"""


def c10(check):
    check("C10", "exploration",
          "Seeded search over refinement histories: each run is a real run() execution whose refined cells are steered by a "
          "stub calculator (hot spot, two hot spots, alternating, random, natural), over meshes, adpt_fac, symmetry settings, "
          "regular and tetrahedral grids, all four storage modes, serial or simulated ray, with all files behind SimDisk. After "
          "every iteration the saved/returned integral is recomputed from scratch as sum factor_i*payload_i; saved npz and per-K "
          "pickle files are read back. A separate run class injects ENOSPC/EIO (may fail, never wrong). Evidence over sampled "
          "histories, not a proof.",
          "Payload of a K-point is what the driver received at KpointBZ.set_result; equality is 1e-10 of the natural scale of the "
          "sum; stub calculators stand in for Data_K in most runs (real Data_K_R + static calculators in a fraction).",
          "deterministic simulation: seeded refinement histories and storage modes, weighted-sum reference model evaluated "
          "after every iteration, I/O fault injection, minimised replay files",
          "DESIGN.md §4 C10")


EXTRA = [c10]
