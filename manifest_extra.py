"""per-property MANIFEST entries, appended as the checks are built"""


def c10(check):
    check("C10", "exploration",
          "Seeded search over refinement histories: each run is a real run() execution whose refined cells are steered by a "
          "stub calculator (hot spot, two hot spots, alternating, random, natural), over meshes, adpt_fac, symmetry settings, "
          "regular and tetrahedral grids, all four storage modes, serial or simulated ray, with all files behind SimDisk. After "
          "every iteration the saved/returned integral is recomputed from scratch as sum factor_i*payload_i; saved npz and per-K "
          "pickle files are read back. A separate run class injects ENOSPC/EIO (may fail, never wrong). Evidence over sampled "
          "histories, not a proof.",
          "Payload of a K-point is what the driver received at KpointBZ.set_result; equality is 1e-10 of the natural scale of the "
          "sum; stub calculators stand in for Data_K in most runs (real Data_K_R + static calculators in a fraction).",
          "deterministic simulation: seeded refinement histories and storage modes, weighted-sum reference model evaluated "
          "after every iteration, I/O fault injection, minimised replay files",
          "DESIGN.md §4 C10")


def c11(check):
    check("C11", "exploration",
          "Quick tier: seeded search over restart histories - an uninterrupted reference run(T) against 2-4 segments that end by "
          "returning or by a simulated process kill at an iteration boundary, restarted with restart=True under changing storage "
          "mode / Klist_part / serial-or-simulated-ray and every directory listing order policy; every reported iteration is compared "
          "with the reference. Plus kills before an arbitrary intercepted operation with torn-write cuts (relaxed oracle: restart may "
          "raise, never report wrong data). Thorough tier: additionally, for each sampled small history EVERY intercepted operation of "
          "the crashing segment (x torn-write cuts) is used as crash site in turn - exhaustive over the crash sites of that history, "
          "sampled over histories.",
          "Process-kill model (OS-handed bytes survive, part of the user buffer survives); power loss not modelled; a restarted segment "
          "gets fresh objects but shares the interpreter; stub calculators with generic (tie-free) payload.",
          "deterministic simulation with crash injection: seeded restart histories, crash-site sweep per history, uninterrupted "
          "run as reference model, listing-order fault, minimised replay files",
          "DESIGN.md §4 C11")


def c06(check):
    check("C06", "exploration",
          "Seeded search over refinement histories with invariants checked after every step: direct K-list histories (arbitrary "
          "subsets of points, per-step meshes, sibling and cross merges, pickle round trips with re-applied weights), tetrahedral "
          "histories (default set, unimodular images, trigonal wedge, constructor splitting, refinement), and real run() executions "
          "in which every get_K_list / divide / exclude_equiv_points call is intercepted. Invariants: total weight 1, non-negative, "
          "initial stars partition the grid with weight |star|/N, children tile the parent and split its weight, merges transfer "
          "exactly the removed weight to a symmetry-equivalent survivor, tetrahedra tile the cell / their parent. Evidence over "
          "sampled histories, lattices and groups.",
          "Symmetry equivalence is decided by the harness's own group matrices (from generator names and lattice); tetrahedron "
          "cover is tested on seeded interior sample points; completeness of merging is not demanded.",
          "deterministic simulation: stateful seeded histories on the K-list with step-wise invariants, intercepted refinement "
          "calls inside run(), minimised replay files",
          "DESIGN.md §4 C06", engine="klist + simrun")


def c03(check):
    check("C03", "exploration",
          "Seeded search over executor partitionings: each run fixes a system, a k-grid and calculators and executes EVERY "
          "factorisation NKdiv x NKFFT of the grid (FFT grids below the recommended size and non-uniform ones included), each with a "
          "drawn FFT library and either serially or under the simulated ray peer with a drawn schedule; every result is compared "
          "with the canonical NKFFT=1 serial numpy run, a stub calculator on the real Data_K is compared with an independent "
          "sum over the explicit grid, and every grid k-point must be handed to the calculators exactly once. Exhaustive over "
          "factorisations per sampled grid, sampled over systems/grids/calculators/schedules.",
          "Equality 1e-8 of max|reference|; tetrahedron variants only without symmetry reduction (with irreducible K-points the "
          "integration cells depend on NKdiv - a symmetry-reduction matter, C07); Fermi grids with irrational offset.",
          "deterministic simulation: enumeration of the work partitioning (NKdiv x NKFFT) with seeded library and worker "
          "schedule, canonical run and explicit k-sum as reference models",
          "DESIGN.md §4 C03")


def c30(check):
    check("C30", "exploration",
          "Same workload as C03 with TabulatorAll(mode='grid'): all factorisations of the sampled grid, drawn FFT library, "
          "serial or simulated-ray arrival order of the per-K blocks, irreducible K-points on C3z-symmetric models. The returned "
          "k-points must be the C-ordered grid (each point once) and every slot must hold the value of its own k-point evaluated "
          "alone (fresh tabulators on a one-point Data_K); component extraction is checked against plain numpy as a by-product.",
          "Reference = same tabulator code on a one-point Data_K; equality 1e-8 of max|reference|.",
          "deterministic simulation: enumeration of the work partitioning with seeded arrival order of per-K tabulations, "
          "single-point evaluation as reference model",
          "DESIGN.md §4 C30")


def c29(check):
    check("C29", "exploration",
          "Seeded search over histories of API calls in one process image (a forked child per history): 2-5 evaluate_k_path / "
          "evaluate_k calls on one or two systems of equal sizes and one or two paths, with drawn quantities, band selections "
          "(lists, arrays, ints, unsorted), k_batch, user tabulators, serially or under the simulated ray "
          "peer with a drawn completion schedule, on drawn paths (breaks, revisited points, points outside the first cell, zoom-in segments). The "
          "value of every named quantity at every path point is computed first with fresh tabulators on a one-point Data_K; every "
          "call of the history must return exactly those values in path order, and must not raise because of an earlier call. "
          "Path construction (nodes, labels, uniform sampling, refinement, path coordinate) is checked as a by-product only.",
          "Reference = same Tabulator classes freshly constructed, one point at a time; equality 1e-8 of max|reference|; the "
          "construction half of the property is input-level and carries no simulation strength.",
          "deterministic simulation: seeded call histories per process image with a simulated ray peer, single-point "
          "evaluation computed first as reference model",
          "DESIGN.md §4 C29")


def c04(check):
    check("C04", "exploration",
          "Seeded search with the eigenvector-gauge nondeterminism as the injected fault: for spin-doubled random Hermitian systems "
          "(exact degeneracies, external-term matrices, random Hermitian spin matrix) a reference evaluation is compared with "
          "evaluations under the code's own random_gauge perturbation point, whose RNG the simulator seeds and whose random unitaries "
          "it counts: evaluate_k for the named quantities and run() with AHC/Morb/Spin/DOS/CumDOS/Ohmic/BerryDipole (also their "
          "tetrahedron variants) and TabulatorAll. Three system classes: everywhere-degenerate spin-doubled systems, time-reversal "
          "symmetric spinful systems with Kramers pairs at the TRIMs only (even grids), and nearly degenerate pairs (split 1e-6 eV). "
          "The k vs k+G comparison of the same evaluations is a by-product without simulation strength.",
          "Equality 1e-8 of max(|reference|, same quantity on the non-doubled parent); runs in which no block was rotated do not "
          "count; degenerate subspaces are twofold; in the nearly-degenerate class invariance is demanded to 1e-4 of the scale.",
          "deterministic simulation: fault injection at the eigenvector-gauge perturbation point (seeded RNG, counted rotations), "
          "unperturbed evaluation as reference",
          "DESIGN.md §4 C04")


def c18(check):
    check("C18", "exploration",
          "npz-directory part only: seeded histories over a simulated directory - save, save another system into the same "
          "directory, simulated process kill at a drawn file operation (between files or mid-file with torn-write cut) with or "
          "without a complete re-save, load - under every listing-order policy for the two directory listings of load_npz. The "
          "loaded system must give back lattice, centres, R-vectors, periodic, num_wann, point-group operations and every saved "
          "matrix bit-exactly, and the same band energies and Berry curvature at a seeded k; after a crash without re-save loading may raise but "
          "may not return differing parts. The _tb.dat/_hr.dat text round trips are sequential single-file formatting and are "
          "NOT addressed by this check.",
          "Process-kill model; a second save uses the same file names as the first; text formats not covered.",
          "deterministic simulation: seeded save/crash/re-save/load histories on a simulated directory with listing-order and "
          "torn-write faults",
          "DESIGN.md §4 C18", engine="npzfs")


EXTRA = [c03, c04, c06, c10, c11, c18, c29, c30]
