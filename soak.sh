#!/bin/bash
# soak: run the quick (or $TIER) checks for several VERIF_SEED values; evidence/replays go to ./soak_out (not /verif/evidence)
# usage: soak.sh "<props>" <first_seed> <last_seed>
props=${1:-"C06 C10 C11 C12"}; a=${2:-1}; b=${3:-5}
mkdir -p soak_out
for s in $(seq $a $b); do for p in $props; do
  VERIF_SEED=$s VERIF_OUT=$PWD/soak_out ./check $p --tier ${TIER:-quick} 2>&1 | grep -E "VIOLATION|kind=|HARNESS|^C[0-9]+:" | sed "s/^/seed=$s /"
done; done
