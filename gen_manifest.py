"""Writes MANIFEST.json from the table below (kept as code so that it stays consistent)."""
import json, os
HERE = os.path.dirname(os.path.abspath(__file__))

NA = {
 "C01": "pure function of lattice / mesh / centres / matrices: no schedule, clock, I/O fault or history to simulate (mesh point order is an input permutation)",
 "C02": "per-k pure transform; the back end is a static argument, FFTW plans are per object, no wisdom I/O, nothing shared between back ends",
 "C05": "pure function of the system's matrices and a permutation/unitary; no state, schedule or I/O",
 "C07": "input-level statement about formulas and declared parities (irreducible vs full run depends only on system, group, calculator)",
 "C08": "pure formulas evaluated at k and -k",
 "C09": "pure group algebra",
 "C13": "pure function of band energies, Fermi grid and formula values",
 "C14": "pure function of corner energies and Fermi levels",
 "C15": "pure function of sorted energies, thresholds and windows",
 "C16": "element-wise algebra is pure; saving is one deterministic file whose integrity rests on the zip CRC; no schedule, fault or history in the property",
 "C17": "pure convolution",
 "C19": "pure serialisation; the only concurrency is order-preserving multiprocessing.Pool.map over pure functions",
 "C20": "pure function of structure, projections and matrices",
 "C21": "pure; the lru_caches memoise pure functions on their complete argument",
 "C22": "pure lattice geometry",
 "C23": "pure",
 "C24": "deterministic fixed-point iteration; the optional ray actor mode is bulk-synchronous (ray.get on ordered lists), no completion order can reach the result",
 "C25": "pure",
 "C26": "pure",
 "C27": "pure",
 "C28": "pure (convergence relation between formulas)",
 "C31": "pure finite differences",
 "C32": "pure import of hopping tables",
 "C33": "pure function of (system, K-point)",
}

CHECKS = {}   # filled by the per-property entries below


def check(pid, level, text, note, technique, design_ref, engine="simrun"):
    CHECKS[pid] = dict(
        property_id=pid,
        quick_cmd=f"./check {pid} --tier quick",
        thorough_cmd=f"./check {pid} --tier thorough",
        evidence_file=f"/verif/evidence/{pid}.json",
        replay_cmd_template="./check --replay {path}",
        engine=engine,
        level_claimed=dict(category=level, text=text, design_ref=design_ref),
        level_note=note,
        technique=technique,
    )


check("C12", "exploration",
      "Seeded search over ray schedules: each run executes one configuration serially and under SimRay (in-process "
      "discrete-event model of ray: workers, task durations, start order, driver cost, ready-subset policy of ray.wait, "
      "time-outs) and compares integrals of every iteration, tabulations slot by slot and bounded termination. A clean "
      "batch is evidence over the sampled schedules, not a proof.",
      "Trusts that SimRay follows the documented contract of ray.put/remote/wait/get (validated once against real ray "
      "2.48); ray-internal failures are not modelled; ray honouring runtime_env is trusted.",
      "deterministic simulation: seeded schedules of a simulated ray peer, serial run as reference model, minimised replay files",
      "DESIGN.md §4 C12, §2.3")

from manifest_extra import EXTRA   # noqa: E402  (further checks are appended as they are built)
for f in EXTRA:
    f(check)

claimed = sorted(CHECKS)
na = [dict(property_id=p, reason=r) for p, r in sorted(NA.items()) if p not in CHECKS]
pending = {
 "C03": "claimed in DESIGN.md; check under construction in this build - not yet registered",
 "C04": "claimed in DESIGN.md; check under construction in this build - not yet registered",
 "C06": "claimed in DESIGN.md; check under construction in this build - not yet registered",
 "C10": "claimed in DESIGN.md; check under construction in this build - not yet registered",
 "C11": "claimed in DESIGN.md; check under construction in this build - not yet registered",
 "C18": "claimed in DESIGN.md; check under construction in this build - not yet registered",
 "C29": "claimed in DESIGN.md; check under construction in this build - not yet registered",
 "C30": "claimed in DESIGN.md; check under construction in this build - not yet registered",
}
for p, r in sorted(pending.items()):
    if p not in CHECKS:
        na.append(dict(property_id=p, reason=r))
na.sort(key=lambda d: d["property_id"])

manifest = dict(
    version=1,
    setup_cmd="/venv/bin/python -c \"import sys; sys.path.insert(0,'/repo'); import wannierberri, numpy, scipy, cloudpickle; print('ok')\"",
    hooks=dict(
        guard="WANNIERBERRI_VERIF",
        enable="no source hook exists: every seam is an existing Python name binding rebound at run time by /verif/sim "
               "(sys.modules['ray'], run_grid.time/glob/open/process/write_factors, ResultDict.savedata, KpointBZ.set_result, "
               "system_R.glob); the variable is set by ./check for the harness only",
        baseline_off_cmd="cd /repo && /venv/bin/python -m pytest -ra -q -p no:cacheprovider --timeout=900 --continue-on-collection-errors",
        source_commits=[],
        add_only=True,
    ),
    engines=[
        dict(name="simrun", path="/verif/sim", serves_properties=[p for p in claimed],
             kind_free_text="deterministic simulation of run()/evaluate_k_path() with a simulated ray peer (SimRay), simulated "
                            "disk (SimDisk: crash, torn write, ENOSPC, listing order), virtual clock and keyed decisions; "
                            "seeded search, ddmin minimisation, replay files"),
    ],
    checks=[CHECKS[p] for p in claimed],
    not_applicable=na,
    notes="See DESIGN.md. ./check <ID> [--tier quick|thorough]; VERIF_SEED selects the batch; exit 0 held / 1 VIOLATION / 2 HARNESS-ERROR. "
          "Genuine defects found and repaired are listed as 'fixed:' lines in known_findings.txt.",
)
json.dump(manifest, open(os.path.join(HERE, "MANIFEST.json"), "w"), indent=1)
print("claimed:", claimed, "not_applicable:", len(na))
