#!/bin/bash
# usage: tools_mutant.sh <name> <patchfile|-e 'sed expr' file> -- <check args...>
# Creates a scratch worktree of /repo under /tmp, applies the change, runs the given checks against it
# (WB_REPO), writing evidence/replays under /tmp/mutout/<name>, then removes the worktree.
set -u
name=$1; shift
wt=/tmp/wbmut_$name
out=/tmp/mutout/$name
rm -rf "$wt" "$out"; mkdir -p "$out"
git -C /repo worktree add -q --detach "$wt" HEAD || exit 3
if [ "$1" = "-e" ]; then
  sed -i -e "$2" "$wt/$3" ; shift 3
else
  git -C "$wt" apply "$1" || { echo "patch failed"; git -C /repo worktree remove --force "$wt"; exit 3; }
  shift
fi
[ "$1" = "--" ] && shift
git -C "$wt" diff --stat | tail -1
rc=0
for prop in "$@"; do
  WB_REPO=$wt VERIF_OUT=$out VERIF_BUDGET_S=${VERIF_BUDGET_S:-45} VERIF_MINIMISE_S=${VERIF_MINIMISE_S:-30} /verif/check $prop --tier ${TIER:-quick} 2>&1 | grep -E "VIOLATION|kind=|HARNESS|^C[0-9]+:" | head -8
done
git -C /repo worktree remove --force "$wt"
