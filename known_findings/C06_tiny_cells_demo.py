"""Known finding for C06 (not repaired): K-points closer than SYMMETRY_PRECISION = 1e-6 (reduced coordinates) are
treated as symmetry-equivalent by KpointBZparallel.equiv / exclude_equiv_points, whatever the cell size.  Once adaptive
refinement has made the cells smaller than ~1e-6 (e.g. NKdiv=2 and ten refinements of the same region with adpt_mesh=4),
sub-cells that are NOT symmetry images of each other are merged: the refined cell is no longer tiled by its sub-cells
(a sub-cell disappears, its weight is moved to its neighbour).  Total weight is conserved.

Run:  cd /repo && /venv/bin/python /verif/known_findings/C06_tiny_cells_demo.py   (exit 1 = finding reproduced)
"""
import io, contextlib, sys
import numpy as np
import wannierberri as wb

lat = np.array([[2.0, 0.1, 0.2], [0.15, 2.2, 0.05], [-0.1, 0.12, 2.5]])
np.random.seed(1)
with contextlib.redirect_stdout(io.StringIO()):
    s = wb.System_R.from_random(num_wann=1, nRvec=1, real_lattice=lat, silent=True)
    s.set_pointgroup(["Inversion"])
    grid = wb.Grid(system=s, NKdiv=2, NKFFT=1)
    K = [k for k in grid.get_K_list(use_symmetry=True) if np.allclose(k.K, [0.5, 0.5, 0.5]) is False][1]
bad = None
for level in range(1, 12):
    with contextlib.redirect_stdout(io.StringIO()):
        children = K.divide(ndiv=np.array([4, 4, 4]), periodic=s.periodic, use_symmetry=True)
    size = float(children[0].dK[0])
    print(f"level {level}: cell size {size:.3e}, {len(children)} sub-cells returned (64 tile the parent; inversion maps none onto a sibling)")
    if level >= 2 and len(children) != 64 and bad is None:      # level 1 starts from a K-point that inversion maps onto itself
        bad = (level, size, len(children))
    K = children[min(21, len(children) - 1)]          # a generic interior sub-cell
if bad:
    print(f"FINDING reproduced: at level {bad[0]} (cell size {bad[1]:.2e} < 1e-6) only {bad[2]} of 64 sub-cells survive the merge")
    sys.exit(1)
print("not reproduced")
