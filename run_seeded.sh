#!/bin/bash
# run_seeded.sh [id ...]  - sensitivity self-test: for every kept seeded change /verif/seeded/<id>/ apply patch.diff to a
# scratch worktree of /repo (never to /repo itself), run the checks named in meta.json ("checks") against it
# (WB_REPO), and report whether each raised a VIOLATION.  Evidence / replays of these runs go to /tmp/mutout/<id>.
cd "$(dirname "$0")"
ids=${@:-$(ls seeded)}
for id in $ids; do
  d=seeded/$id
  [ -f $d/patch.diff ] || continue
  checks=$(/venv/bin/python -c "import json;print(' '.join(json.load(open('$d/meta.json'))['checks']))")
  wt=/tmp/wbseed_$id; out=/tmp/mutout/$id
  rm -rf $wt $out; mkdir -p $out
  git -C /repo worktree add -q --detach $wt HEAD || { echo "$id: cannot create worktree"; continue; }
  if ! git -C $wt apply $PWD/$d/patch.diff; then echo "$id: PATCH DOES NOT APPLY"; git -C /repo worktree remove --force $wt; continue; fi
  for c in $checks; do
    WB_REPO=$wt VERIF_OUT=$out VERIF_MINIMISE_S=${VERIF_MINIMISE_S:-20} ./check $c --tier ${TIER:-quick} > $out/$c.log 2>&1; rc=$?
    v=$(grep -c "^VIOLATION" $out/$c.log)
    echo "$id: check $c exit=$rc violations_reported=$v $(grep -m1 'kind=' $out/$c.log | cut -c1-160)"
  done
  git -C /repo worktree remove --force $wt
done
