#!/bin/bash
# rerun_single.sh <seed id> <pytest node/k-expression args...> : re-run tests alone on the patched tree and append the outcome to tests_full.txt
id=$1; shift
wt=/tmp/rr_$id; rm -rf $wt
git -C /repo worktree add -q --detach $wt HEAD && git -C $wt apply /verif/seeded/$id/patch.diff && rsync -a --ignore-existing /repo/tests/data/ $wt/tests/data/
res=$(cd $wt && timeout 3000 /venv/bin/python -m pytest -q -p no:cacheprovider --timeout=900 "$@" 2>&1 | tail -1)
echo "re-run alone on the patched tree: pytest $* -> $res" | tee -a /verif/seeded/$id/tests_full.txt
git -C /repo worktree remove --force $wt
