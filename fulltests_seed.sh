#!/bin/bash
# fulltests_seed.sh <id> ... : run the pinned baseline test command on a scratch worktree with seeded/<id>/patch.diff applied and
# compare with BASELINE.json's stable_pass list; result in seeded/<id>/tests_full.txt
for id in "$@"; do
  d=/verif/seeded/$id; wt=/tmp/ft_$id; rm -rf $wt
  git -C /repo worktree add -q --detach $wt HEAD || continue
  git -C $wt apply $d/patch.diff || { echo "patch failed" > $d/tests_full.txt; git -C /repo worktree remove --force $wt; continue; }
  # generated / extracted test data that git ignores is not part of a worktree: copy it (388 MB, removed with the worktree)
  rsync -a --ignore-existing /repo/tests/data/ $wt/tests/data/
  ( cd $wt && nice -n 10 timeout 14000 /venv/bin/python -m pytest -ra -q -p no:cacheprovider --timeout=900 --continue-on-collection-errors --junitxml=/tmp/ft_$id.xml > /tmp/ft_$id.log 2>&1 )
  /venv/bin/python - $id <<'PY' > $d/tests_full.txt
import json, sys, xml.etree.ElementTree as ET
id_=sys.argv[1]
stable=set(json.load(open('/root/.vp/BASELINE.json'))['stable_pass'])
res={}
for tc in ET.parse(f'/tmp/ft_{id_}.xml').iter('testcase'):
    st='pass'
    for ch in tc:
        if ch.tag in ('failure','error'): st='fail'
        elif ch.tag=='skipped': st='skip'
    res[tc.get('classname')+'::'+tc.get('name')]=st
bad=sorted(n for n in stable if res.get(n)!='pass')
print(f"pinned baseline command on /repo HEAD + patch.diff ({id_}): {sum(1 for n in stable if res.get(n)=='pass')} of {len(stable)} stable tests pass")
for b in bad: print("  NOT PASSING:", b, res.get(b))
PY
  tail -1 /tmp/ft_$id.log >> $d/tests_full.txt
  git -C /repo worktree remove --force $wt
done
