import sys, io, contextlib, time, glob, random, shutil, builtins, os
import numpy as np
import wannierberri as wb
from wannierberri import run_grid
import wannierberri.grid.Kpoint as KP
import wannierberri.result.result as RR
import wannierberri.result.energyresult as ER
from wannierberri.result import EnergyResult
from wannierberri.calculators.calculator import Calculator
from wannierberri.symmetry.point_symmetry import transform_ident
from stubs import StubData
class Proxy:
    log=[]
    def __init__(self, f, path, mode): self.f=f; self.path=path; self.mode=mode; Proxy.log.append(("open",os.path.basename(path),mode))
    def write(self, b): Proxy.log.append(("write",os.path.basename(self.path),len(b))); return self.f.write(b)
    def __getattr__(self, n): return getattr(self.f, n)
    def __enter__(self): return self
    def __exit__(self,*a): Proxy.log.append(("close",os.path.basename(self.path))); return self.f.__exit__(*a)
    def close(self): Proxy.log.append(("close",os.path.basename(self.path))); return self.f.close()
    def __iter__(self): return iter(self.f)
def sim_open(path, mode="r", *a, **k):
    f=builtins.open(path, mode, *a, **k)
    return Proxy(f, path, mode) if any(c in mode for c in "wa") else f
for m in (run_grid, KP, RR, ER): m.open=sim_open
np.random.seed(1)
sys_ = wb.System_R.from_random(num_wann=3, nRvec=8, real_lattice=np.eye(3)*2.0, max_R=2, berry=False, silent=True)
grid = wb.Grid(system=sys_, NKdiv=2, NKFFT=2)
class Stub(Calculator):
    def __call__(self, data_K):
        Kp = data_K.Kpoint
        val = np.cos(2*np.pi*Kp.Kp_fullBZ).sum() + Kp.dK.prod()
        return EnergyResult(np.array([0.,1.]), val*np.array([1.,2.]), transformTR=transform_ident, transformInv=transform_ident, save_mode="bin+txt", rank=0)
os.makedirs("/tmp/probe/o", exist_ok=True)
with contextlib.redirect_stdout(io.StringIO()):
    res = wb.run(sys_, grid, {"stub":Stub()}, parallel=False, data_k_class=StubData, fout_name="/tmp/probe/o/out", adpt_num_iter=1, dump_results=True, file_Klist_path="/tmp/probe/o/kl", use_irred_kpt=False, symmetrize=False)
from collections import Counter
print(Counter((e[0], e[1].split("-")[0].split(".")[0]) for e in Proxy.log))
r=EnergyResult.from_npz("/tmp/probe/o/out-stub_iter-0001.npz")
print(r.data, res.results["stub"].data)
shutil.rmtree("/tmp/probe/o")
