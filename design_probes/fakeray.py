import random, types, sys
class Ref:
    _n=0
    def __init__(self, sim, thunk=None, value=None, ready=False):
        Ref._n+=1; self.id=Ref._n; self.sim=sim; self.thunk=thunk; self.value=value; self.ready=ready
    def __hash__(self): return self.id
    def __eq__(self,o): return self is o
class Sim:
    def __init__(self, seed, ncpu=2, mode="subset"):
        self.rng=random.Random(seed); self.ncpu=ncpu; self.pending=[]; self.mode=mode; self.log=[]
    # api
    def is_initialized(self): return True
    def cluster_resources(self): return {"CPU": self.ncpu}
    def put(self, v): return Ref(self, value=v, ready=True)
    def _resolve(self, x): return self.get(x) if isinstance(x, Ref) else x
    def remote(self, fn):
        sim=self
        class R:
            def remote(self_, *a, **kw):
                r=Ref(sim, thunk=lambda: fn(*[sim._resolve(x) for x in a], **{k:sim._resolve(v) for k,v in kw.items()}))
                sim.pending.append(r); return r
        return R()
    def _complete(self, r):
        r.value=r.thunk(); r.ready=True; self.pending.remove(r)
    def get(self, r):
        if isinstance(r, list): return [self.get(x) for x in r]
        if not r.ready: self._complete(r)
        return r.value
    def wait(self, refs, num_returns=1, timeout=None):
        # complete random pending tasks until >= num_returns ready, plus a random surplus
        ready=[r for r in refs if r.ready]
        extra=self.rng.randint(0, 6)
        while (len(ready) < num_returns + extra) and self.pending:
            r=self.rng.choice(self.pending); self._complete(r)
            ready=[r for r in refs if r.ready]
        if len(ready)>num_returns:
            chosen=set(self.rng.sample(ready, num_returns)) if self.mode=="subset" else set(ready[:num_returns])
        else: chosen=set(ready)
        out=[r for r in refs if r in chosen]
        self.log.append((num_returns, [refs.index(r) for r in out], len(ready)))
        return out, [r for r in refs if r not in chosen]
def install(sim):
    m=types.ModuleType("ray")
    for n in ("is_initialized","cluster_resources","put","remote","get","wait"): setattr(m,n,getattr(sim,n))
    sys.modules["ray"]=m
