import sys, io, contextlib, time, inspect, warnings
warnings.filterwarnings("ignore")
import numpy as np
import wannierberri as wb
from wannierberri import calculators as calc
from wannierberri.calculators.static import StaticCalculator
from wannierberri.calculators.tabulate import Tabulator
from wannierberri.data_K.data_K import Data_K
Data_K.degen_thresh_random_gauge = property(lambda self: self.degen_threshold_random_gauge)
Data_K.true = property(lambda self: self.degen)
np.random.seed(3)
sys_ = wb.System_R.from_random(num_wann=3, nRvec=10, real_lattice=np.eye(3)*2.0+0.1*np.random.random((3,3)), max_R=2, berry=True, morb=True, silent=True)
for key in list(sys_._XX_R.keys()):
    sys_.set_R_mat(key, sys_.get_R_mat(key), Hermitian=True, reset=True)
sys_.double_spin()
Ef=np.linspace(-3,3,7)+0.0123
grid = wb.Grid(system=sys_, NKdiv=2, NKFFT=2)
def go(c, **pk):
    with contextlib.redirect_stdout(io.StringIO()):
        return wb.run(sys_, grid, c, parallel=False, fout_name="/tmp/probe/out", use_irred_kpt=False, symmetrize=False, parameters_K=pk)
names=[n for n,c in vars(calc.static).items() if inspect.isclass(c) and issubclass(c,StaticCalculator) and not n.startswith("_") and c is not StaticCalculator]
for n in names:
    cls=getattr(calc.static,n)
    try:
        c0={n:cls(Efermi=Ef, save_mode="")}
        r0=go(c0)
    except Exception as e:
        print(f"{n:32s} SKIP {type(e).__name__}: {str(e)[:70]}"); continue
    worst=0
    try:
        for sd in range(3):
            np.random.seed(10+sd)
            r1=go({n:cls(Efermi=Ef, save_mode="")}, random_gauge=True)
            a=r0.results[n].data; b=r1.results[n].data
            worst=max(worst, abs(a-b).max()/max(abs(a).max(),1e-300))
        print(f"{n:32s} scale {abs(a).max():.3e} rel.diff {worst:.2e}")
    except Exception as e:
        print(f"{n:32s} EXC-gauge {type(e).__name__}: {str(e)[:70]}")
tabs=[n for n,c in vars(calc.tabulate).items() if inspect.isclass(c) and issubclass(c,Tabulator) and c is not Tabulator]
for n in tabs:
    cls=getattr(calc.tabulate,n)
    try:
        mk=lambda: {"t":calc.TabulatorAll({n:cls()}, mode="grid", save_mode="")}
        r0=go(mk()).results["t"]
        worst=0
        for sd in range(3):
            np.random.seed(10+sd)
            r1=go(mk(), random_gauge=True).results["t"]
            a=r0.get_data(n); b=r1.get_data(n)
            worst=max(worst, abs(a-b).max()/max(abs(a).max(),1e-300))
        print(f"TAB {n:28s} scale {abs(a).max():.3e} rel.diff {worst:.2e}")
    except Exception as e:
        print(f"TAB {n:28s} EXC {type(e).__name__}: {str(e)[:70]}")
