import sys, io, contextlib, time, glob, random, shutil
import numpy as np
import wannierberri as wb
from wannierberri.system import system_R as sR
np.random.seed(3)
sys_ = wb.System_R.from_random(num_wann=3, nRvec=12, real_lattice=np.eye(3)*2.0, max_R=2, berry=True, silent=True)
sys_.set_pointgroup(["C4z","Inversion"])
shutil.rmtree("/tmp/probe/npz", ignore_errors=True)
with contextlib.redirect_stdout(io.StringIO()):
    sys_.to_npz("/tmp/probe/npz")
realglob=glob.glob
class G:
    def __init__(self, rng): self.rng=rng
    def glob(self, pat):
        l=sorted(realglob(pat)); self.rng.shuffle(l); return l
bad=0
for seed in range(200):
    sR.glob=G(random.Random(seed))
    try:
        with contextlib.redirect_stdout(io.StringIO()):
            s2=wb.System_R.from_npz("/tmp/probe/npz")
        ok = np.allclose(s2.real_lattice, sys_.real_lattice) and np.allclose(s2.wannier_centers_cart, sys_.wannier_centers_cart) and np.array_equal(s2.rvec.iRvec, sys_.rvec.iRvec) and all(np.allclose(s2.get_R_mat(k), sys_.get_R_mat(k)) for k in sys_._XX_R) and s2.pointgroup.size==sys_.pointgroup.size
        if not ok: bad+=1; print(seed,"MISMATCH")
    except Exception as e:
        bad+=1; print(seed, "EXC", type(e).__name__, e)
print("bad", bad); print(sorted(realglob("/tmp/probe/npz/*")))
shutil.rmtree("/tmp/probe/npz")
