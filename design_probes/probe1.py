import time, sys, os, io, contextlib
t0=time.time()
import numpy as np
import wannierberri as wb
from wannierberri.result import EnergyResult, ResultDict
from wannierberri.calculators.calculator import Calculator
from wannierberri.symmetry.point_symmetry import transform_ident
print("import", time.time()-t0)

np.random.seed(1)
t0=time.time()
sys_ = wb.System_R.from_random(num_wann=3, nRvec=8, real_lattice=np.eye(3)*2.0, max_R=2, berry=False)
sys_.set_pointgroup(["C4z","C2x","Inversion"])
print("system", time.time()-t0, sys_.pointgroup.size)

class Stub(Calculator):
    def __init__(self):
        super().__init__()
        self.calls=[]
    def __call__(self, data_K):
        Kp = data_K.Kpoint
        self.calls.append(tuple(Kp.K))
        E = np.linspace(0,1,4)
        val = np.cos(2*np.pi*Kp.Kp_fullBZ).sum() + np.arange(4)*Kp.dK.prod()
        return EnergyResult(E, val*np.ones(4), transformTR=transform_ident, transformInv=transform_ident, save_mode="bin", rank=0)

class StubData:
    def __init__(self, system, dK=None, grid=None, Kpoint=None, **kw):
        self.Kpoint=Kpoint; self.system=system

grid = wb.Grid(system=sys_, NKdiv=4, NKFFT=2)
for kw in [dict(), dict(adpt_num_iter=3), dict(adpt_num_iter=3, use_irred_kpt=False, symmetrize=False)]:
    stub=Stub()
    t0=time.time()
    with contextlib.redirect_stdout(io.StringIO()):
        res = wb.run(sys_, grid, {"stub":stub}, parallel=False, data_k_class=StubData, fout_name="/tmp/probe/out", **kw)
    print(kw, "time", time.time()-t0, "calls", len(stub.calls), res.results["stub"].data)
