import sys, io, contextlib, time, glob, shutil, warnings
warnings.filterwarnings("ignore")
import numpy as np
import wannierberri as wb
from wannierberri import run_grid
from stubs import StubData
from wannierberri.result import EnergyResult
from wannierberri.calculators.calculator import Calculator
from wannierberri.symmetry.point_symmetry import transform_ident
np.random.seed(1)
sys_ = wb.System_R.from_random(num_wann=3, nRvec=8, real_lattice=np.eye(3)*2.0, max_R=2, berry=False, silent=True)
k0=np.array([0.1234,0.2345,0.3456])
class Hot(Calculator):
    def __call__(self, data_K):
        Kp = data_K.Kpoint
        d=(Kp.Kp_fullBZ-k0+0.5)%1-0.5
        val = 1.0/(d@d+1e-3)
        return EnergyResult(np.array([0.,1.]), val*np.array([1.,2.]), transformTR=transform_ident, transformInv=transform_ident, save_mode="", rank=0)
realglob=glob.glob
class G:
    def glob(self, pat): return sorted(realglob(pat))
run_grid.glob=G()
with contextlib.redirect_stdout(io.StringIO()):
    grid=wb.grid.GridTetra(sys_, length=4.3, NKFFT=1)
cap={}
orig=run_grid.process
def proc(paralfunc,K_list,**kw):
    cap['K']=K_list; return orig(paralfunc,K_list,**kw)
run_grid.process=proc
def go(n, restart=False, path="/tmp/probe/kl", **kw):
    with contextlib.redirect_stdout(io.StringIO()):
        res = wb.run(sys_, grid, {"hot":Hot()}, parallel=False, data_k_class=StubData, fout_name="/tmp/probe/out", adpt_num_iter=n, allow_restart=True, restart=restart, file_Klist_path=path, **kw)
    return res.results["hot"].data
for kw in [dict(), dict(dump_results=True), dict(adpt_mesh=3)]:
    ref=go(5, path="/tmp/probe/kl_ref", **kw)
    K=cap['K']; print("tetra K", len(K), "sumfac", sum(k.factor for k in K), "scratch", sum(k.factor*k.get_result().results['hot'].data for k in K), ref)
    for split in [(2,3),(1,1,3),(4,1)]:
        shutil.rmtree("/tmp/probe/kl", ignore_errors=True); restart=False
        try:
            for n in split: d=go(n, restart=restart, **kw); restart=True
            print(kw, split, np.allclose(d,ref,rtol=1e-10))
        except Exception as e: print(kw, split, "EXC", type(e).__name__, e)
shutil.rmtree("/tmp/probe/kl", ignore_errors=True); shutil.rmtree("/tmp/probe/kl_ref", ignore_errors=True)
