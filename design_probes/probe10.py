import sys, io, contextlib, time
import numpy as np
import wannierberri as wb
np.random.seed(3)
sys_ = wb.System_R.from_random(num_wann=4, nRvec=12, real_lattice=np.eye(3)*2.0, max_R=2, berry=True, silent=True)
for key in list(sys_._XX_R.keys()):
    sys_.set_R_mat(key, sys_.get_R_mat(key), Hermitian=True, reset=True)
nodes=[[0,0,0],[0.5,0,0],None,[0.5,0.5,0],[0,0,0.5]]
def q(f):
    with contextlib.redirect_stdout(io.StringIO()):
        return f()
path,res=q(lambda: wb.evaluate_k_path(sys_, nodes=nodes, length=20, quantities=["energy","berry_curvature"], parallel=False, k_batch=3))
print(path.K_list.shape, res.get_data("Energy").shape)
e0=q(lambda: wb.evaluate_k(sys_, k=path.K_list[2], quantities=["energy"]))
print("alone", e0, "path", res.get_data("Energy")[2])
# history hazard
path,res2=q(lambda: wb.evaluate_k_path(sys_, nodes=nodes, length=20, quantities=["energy"], ibands=[1,2], parallel=False))
print("ibands run", res2.get_data("Energy").shape)
try:
    e1=q(lambda: wb.evaluate_k(sys_, k=path.K_list[2], quantities=["energy"]))
    print("alone after ibands-run", e1)
except Exception as e: print("EXC evaluate_k", type(e).__name__, e)
try:
    path,res3=q(lambda: wb.evaluate_k_path(sys_, nodes=nodes, length=20, quantities=["energy"], parallel=False))
    print("path after ibands-run", res3.get_data("Energy").shape)
except Exception as e: print("EXC evaluate_k_path", type(e).__name__, e)
