import ray, time
ray.init(num_cpus=4, include_dashboard=False, logging_level="ERROR")
@ray.remote
def f(i):
    return i
refs=[f.remote(i) for i in range(40)]
time.sleep(3)
for n in (5,10,15,20,25,30,35,40):
    ready,_=ray.wait(refs, num_returns=n, timeout=60)
    print(n, len(ready), [refs.index(r) for r in ready])
ray.shutdown()
