import sys, io, contextlib, time, glob, random, shutil, itertools
import numpy as np
import wannierberri as wb
from wannierberri import run_grid
from stubs import Stub, StubData
np.random.seed(1)
sys_ = wb.System_R.from_random(num_wann=3, nRvec=8, real_lattice=np.eye(3)*2.0, max_R=2, berry=False, silent=True)
sys_.set_pointgroup(["C4z","C2x","Inversion"])
grid = wb.Grid(system=sys_, NKdiv=4, NKFFT=2)
def go(n, restart=False, path="/tmp/probe/kl", **kw):
    with contextlib.redirect_stdout(io.StringIO()):
        res = wb.run(sys_, grid, {"stub":Stub()}, parallel=False, data_k_class=StubData, fout_name="/tmp/probe/out", adpt_num_iter=n, allow_restart=True, restart=restart, file_Klist_path=path, **kw)
    return res.results["stub"].data
realglob=glob.glob
class G:
    def glob(self, pat): return sorted(realglob(pat))
run_grid.glob=G()
for kw in [dict(), dict(dump_results=True), dict(use_irred_kpt=False, symmetrize=False), dict(adpt_mesh=3, adpt_fac=2)]:
    ref=go(5, path="/tmp/probe/kl_ref", **kw)
    for split in [(2,3),(0,5),(1,1,3),(4,1),(0,0,5),(5,0)]:
        shutil.rmtree("/tmp/probe/kl", ignore_errors=True)
        restart=False
        try:
            for n in split:
                d=go(n, restart=restart, **kw); restart=True
            print(kw, split, np.allclose(d,ref,rtol=1e-10), abs(d-ref).max())
        except Exception as e:
            print(kw, split, "EXC", type(e).__name__, e)
