import sys, io, contextlib, time
import numpy as np
import wannierberri as wb
from wannierberri import run_grid
from wannierberri.result import EnergyResult
from wannierberri.calculators.calculator import Calculator
from wannierberri.symmetry.point_symmetry import transform_ident
from stubs import StubData
np.random.seed(1)
sys_ = wb.System_R.from_random(num_wann=3, nRvec=8, real_lattice=np.eye(3)*2.0, max_R=2, berry=False, silent=True)
k0=np.array([0.1234,0.2345,0.3456])
class Hot(Calculator):
    def __call__(self, data_K):
        Kp = data_K.Kpoint
        d=(Kp.Kp_fullBZ-k0+0.5)%1-0.5
        val = 1.0/(d@d+1e-12)
        return EnergyResult(np.array([0.,1.]), val*np.ones(2), transformTR=transform_ident, transformInv=transform_ident, save_mode="", rank=0)
grid = wb.Grid(system=sys_, NKdiv=2, NKFFT=1)
cap={}
orig=run_grid.process
def proc(paralfunc,K_list,**kw):
    cap['K']=K_list; return orig(paralfunc,K_list,**kw)
run_grid.process=proc
for n in range(1,12):
    with contextlib.redirect_stdout(io.StringIO()):
        res = wb.run(sys_, grid, {"hot":Hot()}, parallel=False, data_k_class=StubData, fout_name="/tmp/probe/out", use_irred_kpt=False, symmetrize=False, adpt_num_iter=n, adpt_mesh=4)
    K=cap['K']
    scratch=sum(k.factor*k.get_result().results["hot"].data for k in K)
    got=res.results["hot"].data
    fmin=min(k.factor for k in K if k.factor>0)
    print(n, len(K), "minfac %.2e"%fmin, "sumfac", sum(k.factor for k in K), got[0], scratch[0], "rel err %.2e"%(abs(got[0]-scratch[0])/abs(scratch[0])))
