import sys, io, contextlib, time
import numpy as np
import fakeray
import wannierberri as wb
from wannierberri.result import EnergyResult
from wannierberri.calculators.calculator import Calculator
from wannierberri.symmetry.point_symmetry import transform_ident
np.random.seed(1)
sys_ = wb.System_R.from_random(num_wann=3, nRvec=8, real_lattice=np.eye(3)*2.0, max_R=2, berry=False, silent=True)
class Stub(Calculator):
    def __call__(self, data_K):
        Kp = data_K.Kpoint
        E = np.linspace(0,1,4)
        val = np.cos(2*np.pi*Kp.Kp_fullBZ).sum() + np.arange(4)*Kp.dK.prod()
        return EnergyResult(E, val*np.ones(4), transformTR=transform_ident, transformInv=transform_ident, save_mode="", rank=0)
class StubData:
    def __init__(self, system, dK=None, grid=None, Kpoint=None, **kw):
        self.Kpoint=Kpoint; self.system=system
grid = wb.Grid(system=sys_, NKdiv=4, NKFFT=2)
def go(parallel, seed=0, ncpu=2, mode="subset"):
    sim=fakeray.Sim(seed, ncpu=ncpu, mode=mode); fakeray.install(sim)
    with contextlib.redirect_stdout(io.StringIO()):
        res = wb.run(sys_, grid, {"stub":Stub()}, parallel=parallel, data_k_class=StubData, fout_name="/tmp/probe/out", use_irred_kpt=False, symmetrize=False)
    return res.results["stub"].data, sim
ref,_=go(False)
bad=0
t0=time.time()
for mode in ("subset","first"):
  bad=0
  for seed in range(200):
    d,sim=go(True, seed, ncpu=2+seed%7, mode=mode)
    if not np.allclose(d,ref, rtol=1e-10):
        bad+=1
        if bad<=2: print(mode, "seed",seed,"MISMATCH", d, ref, sim.log[:6])
  print(mode, "bad",bad,"of 200", time.time()-t0)
