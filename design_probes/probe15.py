import sys, io, contextlib, time, random, pickle
import numpy as np
import wannierberri as wb
from wannierberri.symmetry.point_symmetry import PointGroup
from wannierberri.grid.Kpoint import KpointBZparallel, exclude_equiv_points
from wannierberri.symmetry import point_symmetry as SYM
class FakeSys: pass
def mk(lattice, gens, periodic=(True,True,True)):
    s=FakeSys(); s.real_lattice=np.array(lattice,float); s.pointgroup=PointGroup(gens, real_lattice=s.real_lattice); s.periodic=np.array(periodic); s.NKFFT_recommended=np.array([1,1,1]); s.recip_lattice=s.pointgroup.recip_lattice
    return s
hexl=[[1,0,0],[-0.5,np.sqrt(3)/2,0],[0,0,1.3]]
zoo=[("cubic Oh", np.eye(3), ["C4z","C4x","Inversion"], [4,4,4]),
     ("cubic Oh+TR", np.eye(3), ["C4z","C4x","Inversion","TimeReversal"], [3,3,3]),
     ("tetra D4h", np.diag([1,1,1.4]), ["C4z","C2x","Inversion"], [4,4,2]),
     ("hex D6h", hexl, ["C6z","C2x","Inversion"], [3,3,2]),
     ("hex C3 TR*C2x", hexl, ["C3z","TimeReversal*C2x"], [3,3,2]),
     ("ortho D2", np.diag([1,1.2,1.5]), ["C2z","C2x"], [2,3,4]),
     ("triclinic", np.eye(3)+0.1*np.arange(9).reshape(3,3), [], [2,2,2]),
     ("2D C4", np.eye(3), ["C4z"], [4,4,1]),
    ]
def intmats(pg):
    B=pg.recip_lattice
    return [ (B @ s.R.T @ np.linalg.inv(B))*(s.iTR*s.iInv) for s in pg.symmetries]
bad=0; nh=0
t0=time.time()
for name,lat,gens,NK in zoo:
    per=(True,True,NK[2]>1)
    s=mk(lat,gens,per)
    Ms=intmats(s.pointgroup)
    with contextlib.redirect_stdout(io.StringIO()):
        grid=wb.Grid(system=s, NKdiv=NK, NKFFT=[1,1,1])
    for seed in range(15):
        rng=random.Random(seed); nh+=1
        with contextlib.redirect_stdout(io.StringIO()):
            K=grid.get_K_list(use_symmetry=True)
        assert abs(sum(k.factor for k in K)-1)<1e-12
        # I3: stars partition the grid
        seen={}
        N=np.array(NK)
        for k in K:
            st={tuple(np.round((k.K@M)*N).astype(int)%N) for M in Ms}
            for p in st:
                assert p not in seen, (name,"overlap"); seen[p]=1
            assert abs(k.factor-len(st)/np.prod(N))<1e-12,(name,"factor")
        assert len(seen)==np.prod(N)
        for step in range(5):
            live=[i for i,k in enumerate(K) if k.factor>0]
            sel=rng.sample(live, min(len(live), rng.randint(1,3)))
            mesh=np.array([rng.choice([2,3,4]) for _ in range(3)])
            l1=len(K); tot=sum(k.factor for k in K)
            for i in sel:
                f0=K[i].factor
                ch=K[i].divide(ndiv=mesh.copy(), periodic=s.periodic, use_symmetry=True)
                assert abs(sum(c.factor for c in ch)-f0)<1e-13 and K[i].factor==0
                K+=ch
            before=[(k.K.copy(),k.factor,k.refinement_level) for k in K]
            exclude_equiv_points(K, new_points=len(K)-l1)
            if abs(sum(k.factor for k in K)-tot)>1e-12: bad+=1; print(name,seed,step,"weight lost")
            if rng.random()<0.3: K=pickle.loads(pickle.dumps(K))
print("histories",nh,"bad",bad,"time",time.time()-t0)
