import numpy as np
from wannierberri.result import EnergyResult
from wannierberri.calculators.calculator import Calculator
from wannierberri.symmetry.point_symmetry import transform_ident
class Stub(Calculator):
    def __call__(self, data_K):
        Kp = data_K.Kpoint
        E = np.linspace(0,1,4)
        val = np.cos(2*np.pi*Kp.Kp_fullBZ).sum() + np.arange(4)*Kp.dK.prod()
        return EnergyResult(E, val*np.ones(4), transformTR=transform_ident, transformInv=transform_ident, save_mode="", rank=0)
class StubData:
    def __init__(self, system, dK=None, grid=None, Kpoint=None, **kw):
        self.Kpoint=Kpoint; self.system=system
