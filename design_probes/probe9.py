import sys, io, contextlib, time
import numpy as np
import wannierberri as wb
from wannierberri import calculators as calc
from wannierberri.data_K.data_K import Data_K
Data_K.degen_thresh_random_gauge = property(lambda self: self.degen_threshold_random_gauge)
Data_K.true = property(lambda self: self.degen)
np.random.seed(3)
sys_ = wb.System_R.from_random(num_wann=3, nRvec=12, real_lattice=np.eye(3)*2.0+0.1*np.random.random((3,3)), max_R=2, berry=True, morb=True, silent=True)
# make hermitian
for key in list(sys_._XX_R.keys()):
    sys_.set_R_mat(key, sys_.get_R_mat(key), Hermitian=True, reset=True)
sys_.double_spin()
print(sys_._XX_R.keys(), sys_.num_wann)
k=(0.13,0.27,0.41)
q=["energy","band_gradients","berry_curvature","berry_curvature_internal_terms","berry_curvature_external_terms","spin"]
with contextlib.redirect_stdout(io.StringIO()):
    r0=wb.evaluate_k(sys_, k=k, quantities=q, return_single_as_dict=True)
for seed in range(3):
    np.random.seed(100+seed)
    with contextlib.redirect_stdout(io.StringIO()):
        r1=wb.evaluate_k(sys_, k=k, quantities=q, return_single_as_dict=True, parameters_K=dict(random_gauge=True))
    print(seed, {kk: float(abs(r1[kk]-r0[kk]).max()) for kk in q})
Ef=np.linspace(-3,3,7)
calcs=lambda: {"ahc":calc.static.AHC(Efermi=Ef), "dos":calc.static.DOS(Efermi=Ef), "cumdos":calc.static.CumDOS(Efermi=Ef), "ohmic":calc.static.Ohmic_FermiSea(Efermi=Ef),"morb":calc.static.Morb(Efermi=Ef),
  "spin":calc.static.Spin(Efermi=Ef), "bcd":calc.static.BerryDipole_FermiSea(Efermi=Ef)}
grid = wb.Grid(system=sys_, NKdiv=2, NKFFT=2)
def go(**pk):
    with contextlib.redirect_stdout(io.StringIO()):
        return wb.run(sys_, grid, calcs(), parallel=False, fout_name="/tmp/probe/out", use_irred_kpt=False, symmetrize=False, parameters_K=pk)
r0=go()
np.random.seed(5)
r1=go(random_gauge=True)
for kk in r0.results:
    a=r0.results[kk].data; b=r1.results[kk].data
    print(kk, abs(a).max(), abs(a-b).max())
