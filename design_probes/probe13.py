import sys, io, contextlib, time, glob, random, shutil
import numpy as np
import wannierberri as wb
from wannierberri import run_grid
from wannierberri.result import EnergyResult
from wannierberri.calculators.calculator import Calculator
from wannierberri.symmetry.point_symmetry import transform_ident
from stubs import StubData
np.random.seed(1)
sys_ = wb.System_R.from_random(num_wann=3, nRvec=8, real_lattice=np.eye(3)*2.0, max_R=2, berry=False, silent=True)
sys_.set_pointgroup(["C4z","C2x","Inversion"])
grid = wb.Grid(system=sys_, NKdiv=4, NKFFT=2)
k0=np.array([0.1234,0.2345,0.3456])
class Hot(Calculator):
    def __call__(self, data_K):
        Kp = data_K.Kpoint
        d=(Kp.Kp_fullBZ-k0+0.5)%1-0.5
        val = 1.0/(d@d+1e-3)+ 0.01*np.cos(2*np.pi*Kp.Kp_fullBZ).sum()
        return EnergyResult(np.array([0.,1.]), val*np.array([1.,2.]), transformTR=transform_ident, transformInv=transform_ident, save_mode="", rank=0)
class Crash(BaseException): pass
realglob=glob.glob
class G:
    def glob(self, pat): return sorted(realglob(pat))
run_grid.glob=G()
def go(n, restart=False, path="/tmp/probe/kl", **kw):
    with contextlib.redirect_stdout(io.StringIO()):
        res = wb.run(sys_, grid, {"hot":Hot()}, parallel=False, data_k_class=StubData, fout_name="/tmp/probe/out", adpt_num_iter=n, allow_restart=True, restart=restart, file_Klist_path=path, **kw)
    return res.results["hot"].data
orig_wf=run_grid.write_factors; orig_pr=run_grid.process
for kw in [dict(), dict(dump_results=True), dict(use_irred_kpt=False, symmetrize=False), dict(Klist_part=1)]:
  ref=go(6, path="/tmp/probe/kl_ref", **kw)
  for site in ("before_write_factors","after_process","before_process"):
    for at in (1,2,3,4):
        shutil.rmtree("/tmp/probe/kl", ignore_errors=True)
        cnt={"n":0}
        def wf(*a,**k):
            cnt["n"]+=1
            if site=="before_write_factors" and cnt["n"]==at+1: raise Crash()   # call #1 is iteration-0 factors
            return orig_wf(*a,**k)
        pc={"n":0}
        def pr(*a,**k):
            pc["n"]+=1
            if site=="before_process" and pc["n"]==at+1: raise Crash()
            r=orig_pr(*a,**k)
            if site=="after_process" and pc["n"]==at+1: raise Crash()
            return r
        run_grid.write_factors=wf; run_grid.process=pr
        try:
            go(6, **kw); print("no crash?!")
        except Crash: pass
        run_grid.write_factors=orig_wf; run_grid.process=orig_pr
        # how many iterations are complete on disk?
        done=max(int(f.split("-")[-1].split(".")[0]) for f in realglob("/tmp/probe/kl/factors_iter-*.npy"))
        try:
            d=go(6-done, restart=True, **kw)
            print(kw, site, at, "done",done, "equal", np.allclose(d,ref,rtol=1e-10), abs(d-ref).max())
        except Exception as e:
            print(kw, site, at, "done",done,"EXC", type(e).__name__, e)
shutil.rmtree("/tmp/probe/kl", ignore_errors=True); shutil.rmtree("/tmp/probe/kl_ref", ignore_errors=True)
