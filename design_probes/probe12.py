import os, sys, io, contextlib, time, pickle
os.environ["OMP_NUM_THREADS"]="1"; os.environ["OPENBLAS_NUM_THREADS"]="1"
import numpy as np
import fakeray
import wannierberri as wb
from wannierberri import calculators as calc
from stubs import Stub, StubData
np.random.seed(3)
sys_ = wb.System_R.from_random(num_wann=3, nRvec=12, real_lattice=np.eye(3)*2.0, max_R=2, berry=True, silent=True)
for key in list(sys_._XX_R.keys()):
    sys_.set_R_mat(key, sys_.get_R_mat(key), Hermitian=True, reset=True)
def child(seed):
    sim=fakeray.Sim(seed, ncpu=3, mode="subset"); fakeray.install(sim)
    nodes=[[0,0,0],[0.5,0,0],None,[0.5,0.5,0],[0,0,0.5]]
    with contextlib.redirect_stdout(io.StringIO()):
        path,res=wb.evaluate_k_path(sys_, nodes=nodes, length=30, quantities=["energy","berry_curvature"], parallel=True, k_batch=2+seed%3)
        alone=[wb.evaluate_k(sys_, k=k, quantities=["energy","berry_curvature"], return_single_as_dict=True) for k in path.K_list]
    e=max(abs(res.get_data("Energy")[i]-alone[i]["energy"]).max() for i in range(len(alone)))
    b=max(abs(res.get_data("berry_curvature")[i]-alone[i]["berry_curvature"]).max() for i in range(len(alone)))
    return len(alone), e, b
t0=time.time()
for seed in range(6):
    r,w=os.pipe()
    pid=os.fork()
    if pid==0:
        os.close(r)
        try: out=child(seed)
        except BaseException as ex: out=("EXC",repr(ex))
        os.write(w,pickle.dumps(out)); os._exit(0)
    os.close(w); data=b""
    while True:
        c=os.read(r,65536)
        if not c: break
        data+=c
    os.waitpid(pid,0); print(seed, pickle.loads(data))
print("6 forked runs", time.time()-t0)
# tetra grid with stub
grid=wb.grid.GridTetra(sys_, length=5, NKFFT=1)
with contextlib.redirect_stdout(io.StringIO()):
    res=wb.run(sys_, grid, {"stub":Stub()}, parallel=False, data_k_class=StubData, fout_name="/tmp/probe/out", adpt_num_iter=3)
print("tetra", res.results["stub"].data)
