import sys, io, contextlib, time
import numpy as np
import wannierberri as wb
from wannierberri import calculators as calc, models
def q(f):
    with contextlib.redirect_stdout(io.StringIO()):
        return f()
np.random.seed(3)
rs = wb.System_R.from_random(num_wann=3, nRvec=12, real_lattice=np.eye(3)*2.0+0.2*np.random.random((3,3)), max_R=2, berry=True, silent=True)
for key in list(rs._XX_R.keys()):
    rs.set_R_mat(key, rs.get_R_mat(key), Hermitian=True, reset=True)
hal = q(lambda: wb.System_R.from_pythtb(models.Haldane_ptb(), silent=True))
hal.set_pointgroup(["C3z"])
def tab(): return calc.TabulatorAll({"Energy":calc.tabulate.Energy(),"vel":calc.tabulate.Velocity(),"berry":calc.tabulate.BerryCurvature()}, mode="grid", save_mode="")
for name,S,div,fft,sym in [("rand",rs,(3,2,2),(2,2,1),False),("rand",rs,(1,4,1),(6,1,2),False),("haldane",hal,(3,3,1),(2,2,1),True),("haldane",hal,(6,6,1),(1,1,1),True),("haldane",hal,(3,3,1),(2,2,1),False)]:
    grid=q(lambda: wb.Grid(system=S, NKdiv=div, NKFFT=fft))
    t0=time.time()
    res=q(lambda: wb.run(S, grid, {"tab":tab()}, parallel=False, fout_name="/tmp/probe/out", use_irred_kpt=sym, symmetrize=sym)).results["tab"]
    N=np.array(div)*np.array(fft)
    E=res.get_data("Energy"); V=res.get_data("vel"); B=res.get_data("berry")
    err=0; errv=0; errb=0
    for i in range(N[0]):
      for j in range(N[1]):
        for k in range(N[2]):
            a=q(lambda: wb.evaluate_k(S, k=(i/N[0],j/N[1],k/N[2]), quantities=["energy","band_gradients","berry_curvature"], return_single_as_dict=True))
            err=max(err, abs(E[i,j,k]-a["energy"]).max()); errv=max(errv, abs(V[i,j,k]-a["band_gradients"]).max()); errb=max(errb, abs(B[i,j,k]-a["berry_curvature"]).max())
    print(name,div,fft,sym,E.shape, "errE %.1e errV %.1e errB %.1e"%(err,errv,errb), "t=%.1f"%(time.time()-t0))
