import sys, io, contextlib, time, glob, random, shutil
import numpy as np
import wannierberri as wb
from wannierberri import run_grid
from stubs import Stub, StubData
np.random.seed(1)
sys_ = wb.System_R.from_random(num_wann=3, nRvec=8, real_lattice=np.eye(3)*2.0, max_R=2, berry=False, silent=True)
sys_.set_pointgroup(["C4z","C2x","Inversion"])
grid = wb.Grid(system=sys_, NKdiv=4, NKFFT=2)
def go(n, restart=False, path="/tmp/probe/kl", **kw):
    with contextlib.redirect_stdout(io.StringIO()):
        res = wb.run(sys_, grid, {"stub":Stub()}, parallel=False, data_k_class=StubData, fout_name="/tmp/probe/out", adpt_num_iter=n, allow_restart=True, restart=restart, file_Klist_path=path, **kw)
    return res.results["stub"].data
ref=go(5, path="/tmp/probe/kl_ref")
print("ref", ref)
realglob=glob.glob
class G:
    def __init__(self, rng): self.rng=rng
    def glob(self, pat):
        l=sorted(realglob(pat)); self.rng.shuffle(l); return l
for split in [(2,3),(0,5),(1,1,3),(4,1)]:
    for seed in range(4):
        run_grid.glob=G(random.Random(seed))
        shutil.rmtree("/tmp/probe/kl", ignore_errors=True)
        restart=False
        try:
            for n in split:
                d=go(n, restart=restart); restart=True
            print(split, seed, np.allclose(d,ref,rtol=1e-10), d)
        except Exception as e:
            print(split, seed, "EXC", type(e).__name__, e)
print(realglob("/tmp/probe/kl_ref/factors*"))
