import sys, io, contextlib, time
import numpy as np
import wannierberri as wb
from wannierberri import calculators as calc
np.random.seed(2)
sys_ = wb.System_R.from_random(num_wann=3, nRvec=12, real_lattice=np.eye(3)*2.0+0.1*np.random.random((3,3)), max_R=2, berry=True, silent=True)
Ef=np.linspace(-2,2,5)
calcs=lambda: {"ahc":calc.static.AHC(Efermi=Ef), "dos":calc.static.DOS(Efermi=Ef), "cumdos":calc.static.CumDOS(Efermi=Ef),
   "tab":calc.TabulatorAll({"Energy":calc.tabulate.Energy(),"berry":calc.tabulate.BerryCurvature()}, mode="grid", save_mode="")}
res={}
for div,fft in [((6,6,6),(1,1,1)),((3,3,3),(2,2,2)),((2,2,2),(3,3,3)),((1,1,1),(6,6,6)),((3,2,1),(2,3,6))]:
    grid = wb.Grid(system=sys_, NKdiv=div, NKFFT=fft)
    for lib in ("fftw","numpy"):
        t0=time.time()
        with contextlib.redirect_stdout(io.StringIO()):
            r = wb.run(sys_, grid, calcs(), parallel=False, fout_name="/tmp/probe/out", use_irred_kpt=False, symmetrize=False, parameters_K=dict(fftlib=lib))
        res[(div,fft,lib)]=r
        print(div,fft,lib,"t=%.3f"%(time.time()-t0), r.results["ahc"].data[2], r.results["cumdos"].data[2], r.results["tab"].get_data("berry",iband=0,component="z")[1,2,3])
