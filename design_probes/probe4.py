import sys, io, contextlib, time
import numpy as np
import ray
import wannierberri as wb
from wannierberri.grid.Kpoint import KpointBZ
from stubs import Stub, StubData
np.random.seed(1)
sys_ = wb.System_R.from_random(num_wann=3, nRvec=8, real_lattice=np.eye(3)*2.0, max_R=2, berry=False, silent=True)
grid = wb.Grid(system=sys_, NKdiv=10, NKFFT=2)
def go(parallel):
    with contextlib.redirect_stdout(io.StringIO()):
        res = wb.run(sys_, grid, {"stub":Stub()}, parallel=parallel, data_k_class=StubData, fout_name="/tmp/probe/out", use_irred_kpt=False, symmetrize=False)
    return res.results["stub"].data
ref=go(False)
ray.init(num_cpus=4, include_dashboard=False, logging_level="ERROR", runtime_env={"env_vars":{"PYTHONPATH":"/tmp/probe"}})
orig=KpointBZ.set_result
def slow(self,res):
    time.sleep(0.004); return orig(self,res)
KpointBZ.set_result=slow
for i in range(3):
    d=go(True)
    print("parallel", d, "ref", ref, "equal", np.allclose(d,ref,rtol=1e-10))
ray.shutdown()
