import os
import sys
sys.path.insert(0, os.path.dirname(os.path.abspath(__file__)))
from sim.main import main  # noqa: E402
main()
