#!/bin/bash
# validate_seed.sh <id> <dir with patch.diff demo.py notes.md> "<checks>" : copy into /verif/seeded/<id>, confirm in a FRESH scratch
# worktree that demo.py passes on the unchanged tree and fails with the patch; writes results to seeded/<id>/validation.txt
id=$1; src=$2; checks=$3
d=/verif/seeded/$id; mkdir -p $d
cp $src/patch.diff $src/demo.py $d/; [ -f $src/notes.md ] && cp $src/notes.md $d/agent_notes.md
wt=/tmp/val_$id; rm -rf $wt
git -C /repo worktree add -q --detach $wt HEAD || exit 3
mkdir -p $wt/_seed; cp $d/demo.py $wt/_seed/demo.py
{
echo "validated $(date -u +%FT%TZ) against /repo HEAD $(git -C /repo log --format=%h -1)"
( cd $wt && timeout 900 env OMP_NUM_THREADS=1 /venv/bin/python _seed/demo.py > /tmp/val_$id.clean.log 2>&1 ); rc_clean=$?
echo "demo on unchanged tree: exit $rc_clean   ($(tail -1 /tmp/val_$id.clean.log | cut -c1-200))"
if git -C $wt apply $d/patch.diff; then echo "patch applies: yes"; else echo "patch applies: NO"; fi
( cd $wt && timeout 900 env OMP_NUM_THREADS=1 /venv/bin/python -c "import wannierberri" ) && echo "patched package imports: yes"
( cd $wt && timeout 900 env OMP_NUM_THREADS=1 /venv/bin/python _seed/demo.py > /tmp/val_$id.patched.log 2>&1 ); rc_p=$?
echo "demo on patched tree: exit $rc_p   ($(tail -1 /tmp/val_$id.patched.log | cut -c1-300))"
} | tee $d/validation.txt
git -C /repo worktree remove --force $wt
/venv/bin/python - "$id" "$checks" <<'PY'
import json, sys, os
id_, checks = sys.argv[1], sys.argv[2].split()
p = f"/verif/seeded/{id_}/meta.json"
meta = json.load(open(p)) if os.path.exists(p) else {}
meta.update(id=id_, checks=checks)
json.dump(meta, open(p, "w"), indent=1)
PY
