"""SimRay - an in-process, discrete-event model of the ray peer used by wannierberri.

API surface used by the repository: is_initialized, cluster_resources()['CPU'], put, remote(fn) ->
.remote(*a, **kw), wait(refs, num_returns, timeout), get(ref | list), init, shutdown.

* tasks run the real closure (``paralfunc``) in-process, but arguments and results cross a
  (cloud)pickle round trip exactly as in ray: workers see copies, never the driver's objects;
* time is virtual: a heap of completion events ordered by (time, seq); the clock jumps;
* every choice (worker count, task durations, which queued task starts next, which ready subset
  ``wait`` hands back, driver-side cost) is a keyed decision, value 0 = benign.
"""
import heapq
import pickle
import sys
import types
import hashlib

try:
    import cloudpickle as _cp
except ImportError:  # pragma: no cover
    _cp = pickle


class SimCrash(BaseException):
    """process-kill injected by the simulator (BaseException: no `except Exception` swallows it)"""


class SimLivelock(BaseException):
    """the driver made no progress within the bounded number of simulated calls"""


class VClock:
    def __init__(self):
        self.t = 0.0

    def time(self):
        return self.t


class ObjRef:
    __slots__ = ("id", "ready", "blob", "error", "thunk", "t_done", "batch", "kind")

    def __init__(self, id_, kind):
        self.id = id_
        self.kind = kind
        self.ready = False
        self.blob = None
        self.error = None
        self.thunk = None
        self.t_done = None
        self.batch = -1

    def __hash__(self):
        return self.id

    def __eq__(self, other):
        return self is other

    def __repr__(self):
        return f"ObjRef({self.id})"


NCPU_CHOICES = [2, 1, 3, 4, 6, 8, 16, 32]
PROFILES = ["uniform", "heavytail", "straggler", "reversed", "stalled"]
DRIVER = ["zero", "small", "slow", "random"]
SCHED = ["fifo", "lifo", "random"]
WAITPOL = ["nested", "hash", "hash", "hash", "hash", "random", "prefix", "newest"]


def _hkey(*parts):
    return hashlib.blake2b("/".join(str(p) for p in parts).encode(), digest_size=8).digest()


class SimRay:
    def __init__(self, dec, rec, clock, prefix="ray", initialized=True):
        self.dec, self.rec, self.clock, self.p = dec, rec, clock, prefix
        self.initialized = initialized
        self.init_kwargs = None
        self.ncpu = NCPU_CHOICES[dec(f"{prefix}/ncpu", len(NCPU_CHOICES))]
        self.profile = PROFILES[dec.pick(f"{prefix}/profile", [4, 3, 2, 2, 1])]
        self.driver = DRIVER[dec.pick(f"{prefix}/driver", [2, 2, 4, 2])]
        self.sched = SCHED[dec.pick(f"{prefix}/sched", [3, 1, 2])]
        self.waitpol_i = dec.pick(f"{prefix}/waitpol", [2, 2, 1, 1, 1, 2, 2, 1])
        self.waitpol = WAITPOL[self.waitpol_i]
        self.pi_salt = dec(f"{prefix}/pi", 1 << 20)
        self.nid = 0
        self.ntasks = 0
        self.batch = 0
        self.queue = []       # submitted, not started
        self.events = []      # heap (t_done, seq, ref)
        self.seq = 0
        self.busy = 0
        self.calls = 0
        self.nwait = 0
        self.returned_before = set()
        self.last_returned = set()
        self.waits_after_done = 0
        self.completion_order = []
        self.sched_hash = hashlib.blake2b(digest_size=8)
        self.special = None   # index (within batch) of the straggler / stalled task
        rec.ev("simray", self.ncpu, self.profile, self.driver, self.sched, self.waitpol)

    # ---------------------------------------------------------------- facade
    def is_initialized(self):
        return self.initialized

    def init(self, **kw):
        self.init_kwargs = kw
        self.initialized = True
        self.rec.ev("ray.init", sorted(kw.keys()))

    def shutdown(self):
        self.initialized = False

    def cluster_resources(self):
        return {"CPU": float(self.ncpu)}

    def put(self, value):
        self._tick("put")
        r = self._newref("put")
        r.blob = _cp.dumps(value)
        r.ready = True
        r.t_done = self.clock.t
        return r

    def remote(self, fn):
        sim = self

        class RemoteFunction:
            def remote(self_, *a, **kw):
                return sim._submit(fn, a, kw)

            def options(self_, **kw):
                return self_

        return RemoteFunction()

    # ---------------------------------------------------------------- internals
    def _newref(self, kind):
        self.nid += 1
        return ObjRef(self.nid, kind)

    def _tick(self, what):
        self.calls += 1
        cap = 400 + 80 * max(1, self.ntasks)
        if self.calls > cap:
            self.rec.ev("livelock", self.calls)
            raise SimLivelock(f"driver issued {self.calls} ray calls for {self.ntasks} tasks without finishing")
        if self.driver == "zero":
            c = 0.0
        elif self.driver == "small":
            c = 1e-5
        elif self.driver == "slow":
            c = 4e-3 if what == "get" else 1e-5
        else:
            c = 1e-4 * self.dec(f"{self.p}/dcost/{self.calls}", 100)
        if c:
            self.clock.t += c

    def _duration(self, idx_in_batch, tid):
        d = self.dec
        if self.profile == "uniform":
            return 1e-3 * (1 + d(f"{self.p}/dur/{tid}", 100) / 100.)
        if self.profile == "heavytail":
            return 1e-3 * (1 + d(f"{self.p}/dur/{tid}", 10)) ** 3
        if self.profile == "reversed":
            return 1.0 / (1 + idx_in_batch) + 1e-6 * d(f"{self.p}/dur/{tid}", 100)
        base = 1e-3 * (1 + d(f"{self.p}/dur/{tid}", 100) / 100.)
        if self.special is None:
            self.special = d(f"{self.p}/special/{self.batch}", 64)
        if idx_in_batch == self.special:
            if self.profile == "straggler":
                self.rec.fire("straggler")
                return base * 1000
            self.rec.fire("stalled_task")
            return 61.0 + 30.0 * d(f"{self.p}/stall/{tid}", 5)
        return base

    def _submit(self, fn, a, kw):
        self._tick("remote")
        if not self.queue and not self.events:
            # a new batch of tasks starts (one batch per call of process())
            self.batch += 1
            self.batch_idx = 0
            self.special = None
            self.returned_before = set()
            self.last_returned = set()
            self.waits_after_done = 0
        r = self._newref("task")
        r.batch = self.batch
        self.ntasks += 1
        idx = self.batch_idx
        self.batch_idx += 1
        # arguments are serialised at submission time (ray semantics: later mutation by the driver is
        # invisible to the task); top-level object refs are passed by reference and resolved in the task
        refs_a = {i: x for i, x in enumerate(a) if isinstance(x, ObjRef)}
        refs_kw = {k: x for k, x in kw.items() if isinstance(x, ObjRef)}
        blob_args = _cp.dumps(([None if i in refs_a else x for i, x in enumerate(a)],
                               {k: (None if k in refs_kw else v) for k, v in kw.items()}))
        sim = self

        def thunk():
            a2, kw2 = pickle.loads(blob_args)
            for i, x in refs_a.items():
                a2[i] = sim._materialise(x)
            for k, x in refs_kw.items():
                kw2[k] = sim._materialise(x)
            return fn(*a2, **kw2)

        r.thunk = thunk
        self.queue.append((idx, r))
        self._start_tasks()
        return r

    def _materialise(self, x):
        if isinstance(x, ObjRef):
            assert x.ready
            return pickle.loads(x.blob)
        return x

    def _start_tasks(self, at=None):
        at = self.clock.t if at is None else at
        while self.queue and self.busy < self.ncpu:
            if self.sched == "fifo" or len(self.queue) == 1:
                j = 0
            elif self.sched == "lifo":
                j = len(self.queue) - 1
            else:
                j = self.dec(f"{self.p}/sched/{self.seq}", len(self.queue))
            idx, r = self.queue.pop(j)
            self.seq += 1
            dur = self._duration(idx, r.id)
            heapq.heappush(self.events, (at + dur, self.seq, r))
            self.busy += 1

    def _complete_next(self):
        t, _, r = heapq.heappop(self.events)
        if t > self.clock.t:
            self.clock.t = t
        try:
            val = r.thunk()
            r.blob = _cp.dumps(val)
        except Exception as e:  # delivered to the driver at get(), as ray does
            r.error = e
        r.thunk = None
        r.ready = True
        r.t_done = t
        self.busy -= 1
        self.completion_order.append(r.id)
        self.sched_hash.update(b"c%d" % r.id)
        self.rec.ev("done", r.id, t)
        self._start_tasks(at=t)       # the freed worker picks up the next task at the completion time

    def _catch_up(self):
        """complete every task whose completion time has already passed on the virtual clock"""
        while self.events and self.events[0][0] <= self.clock.t:
            self._complete_next()

    # ---------------------------------------------------------------- wait / get
    def wait(self, refs, num_returns=1, timeout=None, fetch_local=True):
        self._tick("wait")
        self.nwait += 1
        refs = list(refs)
        if len(set(refs)) != len(refs):
            raise ValueError("Wait requires a list of unique object refs.")
        if num_returns <= 0 or num_returns > len(refs):
            raise ValueError("num_returns cannot be greater than the number of objects provided to ray.wait.")
        self._catch_up()
        all_done_before = not self.queue and not self.events
        if all_done_before:
            self.waits_after_done += 1
            if self.waits_after_done > len(refs) + 3:
                raise SimLivelock(
                    f"{self.waits_after_done} ray.wait calls after the last of {len(refs)} tasks completed")
        deadline = None if timeout is None else self.clock.t + timeout
        timed_out = False
        while True:
            nready = sum(1 for r in refs if r.ready)
            if nready >= num_returns:
                break
            if not self.events:
                if deadline is None:
                    raise SimLivelock("ray.wait without timeout on refs that can never become ready")
                self.clock.t = deadline
                timed_out = True
                break
            if deadline is not None and self.events[0][0] > deadline:
                self.clock.t = deadline
                timed_out = True
                break
            self._complete_next()
        ready = [r for r in refs if r.ready]
        if timed_out:
            self.rec.fire("wait_timeout")
        if len(ready) > num_returns:
            self.rec.fire("wait_surplus")
            chosen = self._choose(ready, num_returns, refs)
        else:
            chosen = set(ready)
        if not (self.last_returned <= chosen):
            self.rec.fire("wait_non_nested")
        if len(ready) == len(refs) and len(chosen) == len(refs) and self.nwait == 1:
            self.rec.fire("wait_all_at_once")
        self.last_returned = set(chosen)
        self.returned_before |= chosen
        out = [r for r in refs if r in chosen]
        rest = [r for r in refs if r not in chosen]
        idx = [i for i, r in enumerate(refs) if r in chosen]
        self.sched_hash.update(("w" + ",".join(map(str, idx))).encode())
        self.rec.ev("wait", self.nwait, num_returns, len(ready), timed_out, idx if len(idx) <= 40 else len(idx))
        return out, rest

    def _choose(self, ready, k, refs):
        pol = self.waitpol
        if pol == "nested":
            first = [r for r in ready if r in self.returned_before]
            other = sorted((r for r in ready if r not in self.returned_before), key=lambda r: (r.t_done, r.id))
            return set((first + other)[:k])
        if pol == "hash":
            return set(sorted(ready, key=lambda r: _hkey(self.pi_salt, self.waitpol_i, r.id))[:k])
        if pol == "random":
            salt = self.dec(f"{self.p}/subset/{self.nwait}", 1 << 20)
            return set(sorted(ready, key=lambda r: _hkey(salt, self.nwait, r.id))[:k])
        if pol == "prefix":
            return set(ready[:k])
        if pol == "newest":
            return set(sorted(ready, key=lambda r: (-r.t_done, -r.id))[:k])
        raise AssertionError(pol)

    def get(self, refs, timeout=None):
        self._tick("get")
        if isinstance(refs, (list, tuple)):
            return [self._get1(r) for r in refs]
        return self._get1(refs)

    def _get1(self, r):
        if not isinstance(r, ObjRef):
            raise ValueError(f"Invalid type of object refs, {type(r)}, is given.")
        self._catch_up()
        while not r.ready:
            if not self.events:
                raise SimLivelock("ray.get on a ref that can never become ready")
            self._complete_next()
        if r.error is not None:
            raise r.error
        return pickle.loads(r.blob)

    # ---------------------------------------------------------------- summary
    def schedule_digest(self):
        return self.sched_hash.hexdigest()

    def drained(self):
        return not self.queue and not self.events


def install(sim):
    """make `import ray` resolve to the simulator"""
    m = types.ModuleType("ray")
    for n in ("is_initialized", "cluster_resources", "put", "remote", "get", "wait", "init", "shutdown"):
        setattr(m, n, getattr(sim, n))
    m.ObjectRef = ObjRef
    m.__simray__ = sim
    sys.modules["ray"] = m
    return m


def uninstall():
    sys.modules.pop("ray", None)
