"""C06 - K-point weights partition the Brillouin zone for every grid and history.

Three engines, chosen per run:
  klist  a stateful driver applies refinement steps directly to a K-list (KpointBZparallel.divide,
         exclude_equiv_points, pickle round trips with re-applied weights = the restart path), the scheduler
         choosing arbitrary subsets of points and a mesh per step - histories run() itself would only produce
         for particular data;
  tetra  the same for tetrahedral grids: default 5-tetrahedron set, unimodular images of it, the trigonal
         wedge; constructor splitting (by volume / size) and refinement steps;
  run    real run() executions (stub calculators steer the refinement): every call of Grid.get_K_list,
         divide and exclude_equiv_points inside run() is intercepted and checked, and the K-list is checked
         after every iteration.
Invariants (computed by the harness from raw coordinates with its own group matrices):
  I1 sum of weights = 1, I2 weights >= 0, I3 initial grid: stars disjoint, cover the grid, weight = |star|/N,
  I4 divide: children tile the parent cell, weights split, parent dead, level+1,
  I5 merge: removed points have an equivalent survivor that gained exactly their weight,
  I6 tetrahedra: start set tiles the cell, children tile the parent, weight and volume split equally.
"""
import hashlib
import os
import pickle
import numpy as np

import wannierberri as wb
from wannierberri.grid import Kpoint as _kp
from wannierberri.grid import Kpoint_tetra as _kpt
from wannierberri.grid import grid as _grid
from wannierberri import run_grid as _rg
from wannierberri.result import EnergyResult
from wannierberri.symmetry.point_symmetry import transform_ident

from .. import cases, zoo, oracles as O
from ..simrun import Harness, SimRay, VClock, SimLivelock, SimDisk
from ..simdisk import Scratch

PROPERTY = "C06"
LEVEL = "exploration"
BUDGET = dict(quick=45, thorough=900)
MAX_RUNS = dict(quick=20000, thorough=10 ** 8)
RULE = ("each run draws a lattice and (magnetic) point group, a grid compatible with it and a refinement history: per step a "
        "subset of points/tetrahedra and a mesh; engines: direct K-list histories (with pickle round trips), tetrahedral "
        "histories, and real run() executions with intercepted divide/merge calls. distinct = hash of (lattice, group, grid, "
        "sequence of (refined-cell set, mesh)); non-trivial = at least one refinement step or a symmetry-reduced initial grid")
PROBES = ["engine_klist", "engine_tetra", "engine_run", "initial_grids_checked", "divides_checked", "merges_checked",
          "merge_removed_points", "merge_into_old_point", "merge_among_new_points", "sibling_merge", "pickle_roundtrip",
          "non_periodic_direction", "dead_point_divided", "tetra_sets_checked", "tetra_divides_checked", "tetra_unimodular",
          "tetra_trigonal", "tetra_constructor_split", "aniso_mesh", "merge_different_cell_size", "deep_history",
          "cell_below_1e-3"]
REAL = ["Grid.get_K_list", "KpointBZparallel.divide/absorb/equiv/star", "exclude_equiv_points", "PointGroup.star",
        "GridTetra / GridTrigonal constructor splitting", "KpointBZtetra.divide", "run_grid.run (engine run)"]
STUB = ["calculators (stub payload steering the refinement) in engine run", "the harness's own group matrices as reference model"]
ASSUMPTIONS = [
    "the harness's group matrices (built from generator names and the lattice) are the reference for symmetry equivalence",
    "completeness of merging is not demanded (an unmerged equivalent pair wastes work but loses no weight)",
    "tetrahedron cover is tested on seeded interior sample points (generic points, exactly one tetrahedron modulo lattice)",
]


class _Res:
    """minimal evaluated-result stand-in for direct K-list histories"""
    max = np.array([1.0])


def _mark_evaluated(K_list):
    for K in K_list:
        if not K.was_evaluated_flag:
            K.result = _Res
            K._max = _Res.max
            K.was_evaluated_flag = True


def simulate(dec, rec, tier="quick"):
    eng = ["klist", "tetra", "run"][dec.pick("cfg/engine", [5, 2, 3])]
    rec.fire("engine_" + eng)
    if eng == "klist":
        return _klist(dec, rec, tier)
    if eng == "tetra":
        return _tetra(dec, rec, tier)
    with Scratch("c06") as scr:
        return _run(dec, rec, tier, scr)


def _finish(base, hist, viol=None, nontrivial=True):
    sig = hashlib.blake2b(repr(hist).encode(), digest_size=8).hexdigest()
    out = dict(base, sig=sig, nontrivial=nontrivial, verdict="ok")
    if viol:
        out.update(verdict="violation", kind=viol[0], message=viol[1])
    return out


# ---------------------------------------------------------------------------------------------------
def _klist(dec, rec, tier):
    thorough = tier == "thorough"
    sym = zoo.draw_symmetry(dec, "cfg/sym")
    system = zoo.make_stub_system(sym, seed=1)
    ops = O.own_group(sym["gens"], sym["real_lattice"])
    NKdiv = zoo.draw_NK(dec, "cfg/NKdiv", sym, choices=(2, 1, 3, 4, 5, 6) if thorough else (2, 1, 3, 4, 5))
    nf = [1, 2, 3][dec("cfg/NKFFT", 3)]
    NKFFT = [nf if per else 1 for per in sym["periodic"]]
    use_sym = bool(dec.chance("cfg/use_sym", 3, 4))
    with zoo.quiet():
        grid = wb.Grid(system=system, NKdiv=NKdiv, NKFFT=NKFFT, use_symmetry=use_sym)
        K_list = grid.get_K_list(use_symmetry=use_sym)
    if not all(sym["periodic"]):
        rec.fire("non_periodic_direction")
    hist = [sym["family"], sym["gens"], sym["periodic"], NKdiv, NKFFT, use_sym]
    sample = dict(engine="klist", lattice=sym["family"], gens=sym["gens"], periodic=sym["periodic"], NKdiv=NKdiv,
                  NKFFT=NKFFT, use_symmetry=use_sym, group_order=len(ops), initial_points=len(K_list), steps=[])
    base = dict(sample=sample, counters={}, real=REAL[:4], stub=STUB[1:], vtime=0.0)
    v = O.check_initial(K_list, NKdiv, ops, use_sym) or O.check_total(K_list, "initial grid")
    rec.fire("initial_grids_checked")
    if v:
        return _finish(base, hist, v)
    nsteps = dec("cfg/nsteps", (12 if thorough else 6) + 1)
    periodic = np.array(sym["periodic"], dtype=bool)
    # "deep" histories keep refining the cells created last, so that the cell size falls far below every tolerance used
    # for comparing k-points (what a hot spot does in run()); the other histories pick any live point
    deep = bool(dec.chance("cfg/deep", 1, 3))
    if deep:
        rec.fire("deep_history")
        nsteps = max(nsteps, 4)
    _mark_evaluated(K_list)
    newest = []
    for step in range(nsteps):
        nsel = 1 + dec(f"h/{step}/nsel", 2 if deep else 4)
        mesh = [[2, 3, 4, 5][dec.pick(f"h/{step}/mesh/{i}", [4, 2, 1, 1] if not deep else [1, 2, 3, 2])] for i in range(3)]
        if dec.chance(f"h/{step}/iso", 2, 3):
            mesh = [mesh[0]] * 3
        else:
            rec.fire("aniso_mesh")
        live = [i for i, K in enumerate(K_list) if K.factor > 0]
        if deep and newest:
            ids_new = {id(K) for K in newest}
            cand = [i for i in live if id(K_list[i]) in ids_new]
            if cand:
                live = cand
        sel = []
        for s in range(nsel):
            if dec.chance(f"h/{step}/dead/{s}", 1, 12):
                dead = [i for i, K in enumerate(K_list) if K.factor == 0]
                if dead:
                    sel.append(dead[dec(f"h/{step}/pick/{s}", len(dead))])
                    rec.fire("dead_point_divided")
                    continue
            sel.append(live[dec(f"h/{step}/pick/{s}", len(live))])
        sel = sorted(set(sel))
        hist.append((step, tuple(sel), tuple(mesh)))
        sample["steps"].append(dict(refine=sel, mesh=mesh))
        l1 = len(K_list)
        for i in sel:
            K = K_list[i]
            before = O.snap(K)
            with zoo.quiet():
                children = K.divide(ndiv=np.array(mesh), periodic=periodic, use_symmetry=use_sym)
            rec.fire("divides_checked")
            if use_sym and len(children) < int(np.prod(np.where(periodic, mesh, 1))):
                rec.fire("sibling_merge")
            v = O.check_divide(before, O.snap(K), children, mesh, periodic, ops, use_sym)
            if v:
                return _finish(base, hist, (v[0], f"step {step}: " + v[1]))
            K_list += children
        newest = list(K_list[l1:])
        if use_sym:
            before = O.snap_list(K_list)
            nnew = len(K_list) - l1
            _kp.exclude_equiv_points(K_list, new_points=nnew)
            rec.fire("merges_checked")
            removed = len(before) - len(K_list)
            if removed:
                rec.fire("merge_removed_points", removed)
                ids_after = {id(K) for K in K_list}
                for idx, s in enumerate(before):
                    if s[0] in ids_after and float([K for K in K_list if id(K) == s[0]][0].factor) > s[3] + 1e-15:
                        rec.fire("merge_into_old_point" if idx < l1 else "merge_among_new_points")
            v = O.check_merge(before, K_list, ops, stats=rec.fired)
            if v:
                return _finish(base, hist, (v[0], f"step {step}: " + v[1]))
        v = O.check_total(K_list, f"after step {step}")
        if v:
            return _finish(base, hist, v)
        live_dK = [float(np.min(K.dK[periodic])) for K in K_list if K.factor > 0] if np.any(periodic) else [1.0]
        if live_dK and min(live_dK) < 1e-3:
            rec.fire("cell_below_1e-3")
        _mark_evaluated(K_list)
        if dec.chance(f"h/{step}/pickle", 1, 4):
            # the restart path: append-only chunks, reloaded, weights re-applied from the stored factors
            part = 1 + dec(f"h/{step}/part", 10)
            for K in K_list:
                K.result = None            # results are irrelevant here (and _Res is not picklable by value)
            blobs = [pickle.dumps(K_list[i:i + part]) for i in range(0, len(K_list), part)]
            factors = [float(K.factor) for K in K_list]
            K_list = [K for b in blobs for K in pickle.loads(b)]
            for K, f in zip(K_list, factors):
                K.set_factor(f)
                K.result = _Res
            rec.fire("pickle_roundtrip")
            hist.append("pickle")
    sample["final_points"] = len(K_list)
    return _finish(base, hist, None, nontrivial=nsteps > 0 or (use_sym and len(ops) > 1))


# ---------------------------------------------------------------------------------------------------
UNIMOD = [np.eye(3, dtype=int), np.array([[1, 1, 0], [0, 1, 0], [0, 0, 1]]), np.array([[1, 0, 0], [0, 1, 0], [1, 0, 1]]),
          np.array([[0, 1, 0], [0, 0, 1], [1, 0, 0]]), np.array([[1, 0, 0], [1, 1, 0], [0, 1, 1]]),
          np.array([[1, -1, 0], [0, 1, 0], [0, 0, 1]]), np.array([[-1, 0, 0], [0, 1, 0], [0, 0, 1]])]

DEFAULT5 = np.array([[[0, 0, 0], [1, 0, 0], [0, 1, 0], [0, 0, 1]],
                     [[1, 0, 1], [0, 0, 1], [1, 0, 0], [1, 1, 1]],
                     [[1, 1, 0], [1, 0, 0], [0, 1, 0], [1, 1, 1]],
                     [[0, 1, 1], [0, 0, 1], [0, 1, 0], [1, 1, 1]],
                     [[0, 0, 1], [0, 1, 0], [1, 0, 0], [1, 1, 1]]], dtype=float) - 0.5


def _tetra(dec, rec, tier):
    import warnings
    thorough = tier == "thorough"
    start = ["default", "unimodular", "trigonal"][dec.pick("cfg/start", [3, 3, 2])]
    if start == "trigonal":
        fam = ["hexagonal", "hexagonal60"][dec("cfg/hexfam", 2)]
        sym = zoo.draw_symmetry(dec, "cfg/sym", families=(fam,), allow_2d=False)
        sym["gens"] = []
    else:
        sym = zoo.draw_symmetry(dec, "cfg/sym", families=("triclinic", "monoclinic", "orthorhombic"), allow_2d=False)
        sym["gens"] = []
    system = zoo.make_stub_system(sym, seed=1)
    nf = [1, 2, 3][dec("cfg/NKFFT", 3)]
    length = 1.6 + 0.45 * dec("cfg/length", 6 if thorough else 4) + 0.01234
    by_vol = bool(dec.chance("cfg/by_volume", 3, 4))
    by_size = bool(dec.chance("cfg/by_size", 3, 4))
    kwargs = dict(NKFFT=nf, refine_by_volume=by_vol, refine_by_size=by_size)
    U = None
    with zoo.quiet(), warnings.catch_warnings():
        warnings.simplefilter("ignore")
        if start == "default":
            grid = wb.grid.GridTetra(system, length=length, **kwargs)
        elif start == "unimodular":
            U = UNIMOD[1 + dec("cfg/U", len(UNIMOD) - 1)]
            rec.fire("tetra_unimodular")
            grid = wb.grid.GridTetra(system, length=length, IBZ_tetra=DEFAULT5 @ U, **kwargs)
        else:
            from wannierberri.grid.grid_tetra import GridTrigonal
            rec.fire("tetra_trigonal")
            grid = GridTrigonal(system, length=length, **kwargs)
        K_list = grid.get_K_list()
    rs = np.random.RandomState(1 + dec("cfg/sample_seed", 1000))
    hist = [start, sym["family"], None if U is None else U.tolist(), nf, round(length, 4), by_vol, by_size]
    sample = dict(engine="tetra", start=start, lattice=sym["family"], NKFFT=nf, length=length, by_volume=by_vol,
                  by_size=by_size, tetrahedra=len(K_list), steps=[])
    base = dict(sample=sample, counters={}, real=REAL[4:6], stub=[], vtime=0.0)
    if len(K_list) > (5 if start != "trigonal" else 3):
        rec.fire("tetra_constructor_split")
    claims = start in ("default", "unimodular")
    if claims and U is not None:
        # the image of the unit cell under U: sample points are taken in the cube and tested modulo translations
        pass
    v = O.check_total(K_list, "tetrahedral start set") or O.check_tetra_set(K_list, claims, rs, nsample=40)
    rec.fire("tetra_sets_checked")
    if v:
        return _finish(base, hist, v)
    nsteps = dec("cfg/nsteps", (8 if thorough else 4) + 1)
    for step in range(nsteps):
        nsel = 1 + dec(f"h/{step}/nsel", 3)
        ndiv = [2, 3][dec.pick(f"h/{step}/ndiv", [3, 1])]
        live = [i for i, K in enumerate(K_list) if K.factor > 0]
        sel = sorted({live[dec(f"h/{step}/pick/{s}", len(live))] for s in range(nsel)})
        hist.append((step, tuple(sel), ndiv))
        sample["steps"].append(dict(refine=sel, ndiv=ndiv))
        for i in sel:
            K = K_list[i]
            pv, pf = O.abs_vertices(K), float(K.factor)
            form = dec(f"h/{step}/ndivform/{i}", 2)
            children = K.divide(ndiv=ndiv if form == 0 else np.array([ndiv] * 3), periodic=(True, True, True))
            rec.fire("tetra_divides_checked")
            v = O.check_tetra_divide(pv, pf, float(K.factor), children, ndiv, rs)
            if v:
                return _finish(base, hist, (v[0], f"step {step}: " + v[1]))
            K_list += children
        v = O.check_total(K_list, f"after step {step}")
        if v:
            return _finish(base, hist, v)
    livel = [K for K in K_list if K.factor > 0]
    if claims:
        v = O.check_tetra_set(livel, True, rs, nsample=20)
        if v:
            return _finish(base, hist, (v[0], "after the refinement history: " + v[1]))
    return _finish(base, hist, None, nontrivial=True)


# ---------------------------------------------------------------------------------------------------
def _run(dec, rec, tier, scr):
    thorough = tier == "thorough"
    cfg = cases.draw_case(dec, kinds=("stub_int",), kind_w=(1,), max_iter=5 if thorough else 3, big=thorough)
    b = cases.build(cfg)
    sym = cfg["sym"]
    use_sym = cfg["use_irred_kpt"]
    tetra = cfg["grid_type"] == "GridTetra"
    ops = O.own_group(sym["gens"], sym["real_lattice"]) if (use_sym and not tetra) else [np.eye(3)]
    periodic = np.array(sym["periodic"], dtype=bool)
    fails = []
    rs = np.random.RandomState(7)
    hist = [repr(sorted(cases.brief(cfg).items(), key=str))]

    def wrap_get_K_list(orig, h):
        def get_K_list(self_, use_symmetry=True, k_batch=None):
            K_list = orig(self_, use_symmetry=use_symmetry, k_batch=k_batch)
            rec.fire("initial_grids_checked")
            g = O.own_group(sym["gens"], sym["real_lattice"]) if use_symmetry else [np.eye(3)]
            v = O.check_initial(K_list, self_.div, g, use_symmetry) or O.check_total(K_list, "initial grid")
            if v:
                fails.append(v)
            return K_list
        return get_K_list

    def wrap_divide(orig, h):
        def divide(self_, ndiv, periodic, use_symmetry=True):
            before = O.snap(self_)
            nd = np.array(ndiv).copy()
            children = orig(self_, ndiv, periodic, use_symmetry=use_symmetry)
            rec.fire("divides_checked")
            v = O.check_divide(before, O.snap(self_), children, nd, periodic,
                               ops if (use_symmetry and self_.pointgroup is not None) else [np.eye(3)],
                               use_symmetry and self_.pointgroup is not None)
            if v:
                fails.append(v)
            hist.append(("div", tuple(np.round(before[1], 6)), tuple(int(x) for x in nd)))
            return children
        return divide

    def wrap_tetra_divide(orig, h):
        def divide(self_, ndiv=2, periodic=(True, True, True), use_symmetry=True, refine=True):
            pv, pf = O.abs_vertices(self_), float(self_.factor)
            children = orig(self_, ndiv=ndiv, periodic=periodic, use_symmetry=use_symmetry, refine=refine)
            n = int(np.asarray(ndiv).ravel()[0])
            rec.fire("tetra_divides_checked")
            v = O.check_tetra_divide(pv, pf, float(self_.factor), children, n, rs)
            if v:
                fails.append(v)
            hist.append(("tdiv", tuple(np.round(pv.ravel(), 5)), n))
            return children
        return divide

    def wrap_exclude(orig, h):
        def exclude_equiv_points(K_list, new_points=None):
            before = O.snap_list(K_list)
            r = orig(K_list, new_points=new_points)
            rec.fire("merges_checked")
            if len(before) != len(K_list):
                rec.fire("merge_removed_points", len(before) - len(K_list))
            v = O.check_merge(before, K_list, ops, stats=rec.fired)
            if v:
                fails.append(v)
            return r
        return exclude_equiv_points

    def on_iteration(h, it):
        if h.obs.K_list is not None:
            v = O.check_total(h.obs.K_list, f"K-list at iteration {it['i_iter']}")
            if v:
                fails.append(v)

    clock = VClock()
    parallel = bool(dec.chance("cfg/parallel", 1, 5))
    ray = SimRay(dec, rec, clock) if parallel else None
    h = Harness(dec, rec, clock=clock, ray=ray, on_iteration=on_iteration, snapshot_klist=False, extra_patches=[
        (_grid.Grid, "get_K_list", wrap_get_K_list),
        (_kp.KpointBZparallel, "divide", wrap_divide),
        (_kpt.KpointBZtetra, "divide", wrap_tetra_divide),
        (_kp, "exclude_equiv_points", wrap_exclude),
        (_rg, "exclude_equiv_points", wrap_exclude),
    ])
    exc = None
    with h:
        try:
            h.run(b["system"], b["grid"], b["calculators"], parallel=parallel, fout_name=os.path.join(scr.path, "out"),
                  file_Klist_path=os.path.join(scr.path, "kl"), **b["kwargs"])
        except SimLivelock as e:
            exc = e
        except Exception as e:
            exc = e
    sample = dict(engine="run", config=cases.brief(cfg), parallel=parallel, iterations=len(h.obs.iterations),
                  nK=len(h.obs.K_list) if h.obs.K_list is not None else 0)
    base = dict(sample=sample, counters={}, real=REAL, stub=STUB, vtime=clock.t)
    if not all(sym["periodic"]):
        rec.fire("non_periodic_direction")
    if fails:
        return _finish(base, hist, fails[0])
    if exc is not None:
        return dict(_finish(base, hist, None), verdict="inconclusive", kind="run_raised", message=f"{type(exc).__name__}: {exc}")
    if tetra and h.obs.K_list is not None:
        v = O.check_tetra_set([K for K in h.obs.K_list if K.factor > 0], True, rs, nsample=15)
        rec.fire("tetra_sets_checked")
        if v:
            return _finish(base, hist, v)
    return _finish(base, hist, None, nontrivial=len(h.obs.iterations) > 1 or use_sym)
