"""C30 - grid tabulation covers every grid point with its own values.

Same workload as C03 (one k-point set under every factorisation NKdiv x NKFFT, drawn FFT library,
serial or simulated-ray arrival order of the per-K blocks, with use_irred_kpt on symmetric toy
models so that symmetry images fill the grid), with TabulatorAll(mode='grid').
Oracle: the returned k-points are the C-ordered grid, each point once; get_data(q)[i,j,k] equals the
value obtained by evaluating the point (i/N1, j/N2, k/N3) alone (fresh tabulators on a one-point
Data_K, computed first).  By-product (no simulation strength claimed): get_component for
x/y/z/norm/sq/trace/index tuples equals the algebraic operation on the stored tensor.
"""
import numpy as np

import wannierberri as wb
from wannierberri.calculators import tabulate as T
from .. import zoo, factor_common as F
from ..simdisk import Scratch
from . import c03

PROPERTY = "C30"
LEVEL = "exploration"
BUDGET = dict(quick=35, thorough=900)
MAX_RUNS = dict(quick=3000, thorough=10 ** 7)
RULE = ("as C03, with TabulatorAll(mode='grid'): every factorisation of the drawn grid, drawn FFT library, serial or simulated "
        "ray (arrival order of per-K blocks drawn), irreducible K-points on C3z-symmetric models; distinct = distinct (system, "
        "N, factorisation, library, schedule hash); non-trivial = more than one factorisation")
PROBES = ["factorisations_run", "parallel_factorisation", "symmetric_run", "slots_checked", "components_checked",
          "band_selection", "fft_below_recommended", "nonuniform_factorisation"]
REAL = c03.REAL + ["TabulatorAll / Tabulators", "TABresult.__add__/transform/to_grid/self_to_grid/get_data",
                   "KBandResult.to_grid/get_component"]
STUB = ["ray (SimRay) for the parallel factorisations"]
ASSUMPTIONS = [
    "reference = the same tabulator code on a one-point Data_K (Grid NK=1), computed before any grid run",
    "equality: |a-b| <= 1e-8 * max|reference| + 1e-10",
]

TABS = {"Energy": T.Energy, "berry": T.BerryCurvature, "vel": T.Velocity, "invmass": T.InvMass}


def single_point_values(system, kpts, names, ibands):
    with zoo.quiet():
        grid1 = wb.Grid(system=system, NK=1, NKFFT=1, use_symmetry=False)
    from wannierberri.data_K import get_data_k_class_from_system
    cls = get_data_k_class_from_system(system)
    out = {n: [] for n in names}
    for k in kpts:
        dk = cls(system, grid=grid1, dK=np.array(k, dtype=float), fftlib="numpy")
        for n in names:
            out[n].append(TABS[n]()(dk).data[0])          # all bands: the selection is applied below, by plain indexing
    sel = slice(None) if ibands is None else [int(b) for b in ibands]
    return {n: np.array(v)[:, sel] for n, v in out.items()}


def check_tab(cfg, system, ref, r, desc, rec):
    N = np.array(cfg["N"])
    tab = r["res"].results["tabulate"]
    g = F.grid_points(cfg["N"])
    if tab.kpoints.shape != g.shape or np.max(np.abs(tab.kpoints - g)) > 1e-9:
        return ("grid_order", f"{desc}: returned k-points are not the C-ordered {list(N)} grid with each point once")
    if tab.grid is None or list(tab.grid) != list(N):
        return ("grid_order", f"{desc}: TABresult.grid = {tab.grid}, expected {list(N)}")
    if "_single" not in cfg:
        cfg["_single"] = single_point_values(system, g, cfg["tab_q"], cfg["ibands"])
    if cfg["ibands"] is not None:
        rec.fire("band_selection")
    nb_sel = len(cfg["ibands"]) if cfg["ibands"] is not None else None
    for q in cfg["tab_q"]:
        want = cfg["_single"][q]                       # (npoints, nb, [3..])
        got = tab.get_data(quantity=q)
        got = np.asarray(got).reshape((-1,) + want.shape[1:])
        # get_data with a single band index (int) must be the corresponding slice
        one = np.asarray(tab.get_data(quantity=q, iband=0)).reshape((-1,) + want.shape[2:])
        if np.max(np.abs(one - got[:, 0])) > 0:
            return ("get_data_iband", f"{desc}: get_data('{q}', iband=0) is not band 0 of get_data('{q}')")
        scale = float(np.max(np.abs(want))) if want.size else 1.0
        err = np.abs(got - want).reshape(len(want), -1).max(axis=1)
        rec.fire("slots_checked", len(want))
        if np.max(err) > 1e-8 * scale + 1e-10:
            bad = int(np.argmax(err))
            ijk = np.unravel_index(bad, tuple(N))
            return ("slot_value", f"{desc}: '{q}' in grid slot {tuple(int(x) for x in ijk)} differs from the value at "
                                  f"k={g[bad].tolist()} evaluated alone by {err[bad]:.3e} (scale {scale:.3e})")
        # ---- by-product: components
        res = tab.results[q]
        data = res.data
        nd = data.ndim - 2
        comps = [None] if nd == 0 else (["x", "y", "Z", "norm", "sq", (0,), (2,)] if nd == 1 else ["trace", "xy", "yx", "ZZ", "Xz", (0, 1), (1, 0), (2, 2)])
        for c in comps:
            try:
                gotc = res.get_component(c)
            except Exception as e:
                return ("component", f"get_component({c!r}) of '{q}' raised {type(e).__name__}: {e}")
            xyz = dict(x=0, y=1, z=2)
            if c is None:
                wantc = data
            elif isinstance(c, tuple):
                wantc = data[(slice(None), slice(None)) + c]
            elif c == "norm":
                wantc = np.sqrt((data ** 2).sum(axis=-1))
            elif c == "sq":
                wantc = (data ** 2).sum(axis=-1)
            elif c == "trace":
                wantc = data[:, :, 0, 0] + data[:, :, 1, 1] + data[:, :, 2, 2]
            else:
                wantc = data[(slice(None), slice(None)) + tuple(xyz[ch] for ch in c.lower())]
            rec.fire("components_checked")
            if gotc.shape != wantc.shape or np.max(np.abs(gotc - wantc)) > 1e-12 * max(1.0, float(np.max(np.abs(wantc)))):
                return ("component", f"get_component({c!r}) of '{q}' is not the corresponding operation on the stored tensor")
            if c is not None and q != "Energy":
                # the same through TABresult.get_data(quantity, iband, component): all bands, and a single band given as int
                gd = np.asarray(tab.get_data(quantity=q, component=c)).reshape(wantc.shape)
                g1 = np.asarray(tab.get_data(quantity=q, iband=0, component=c)).reshape(wantc[:, 0].shape)
                if np.max(np.abs(gd - wantc)) > 1e-12 * max(1.0, float(np.max(np.abs(wantc)))) or \
                        np.max(np.abs(g1 - wantc[:, 0])) > 1e-12 * max(1.0, float(np.max(np.abs(wantc)))):
                    return ("component", f"get_data('{q}', component={c!r}) is not the corresponding operation on the stored tensor")
    return None


def simulate(dec, rec, tier="quick"):
    with Scratch("c30") as scr:
        return c03._simulate(dec, rec, tier, scr, want_tab=True, check_tab=check_tab)
