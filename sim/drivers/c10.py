"""C10 - adaptive refinement keeps the reported integral consistent.

One simulated run = one real run() execution with a drawn refinement history (steered by a stub
calculator), refinement mesh, adpt_fac, symmetry setting, storage mode (memory / dump_results /
allow_restart / discarded), serial or SimRay, with all file access through SimDisk.

Oracle, after every iteration: the data run() saves and returns == sum_i factor_i * payload_i over the
current K-point list, recomputed in plain numpy from the payload arrays the driver received for each
K-point (copied at KpointBZ.set_result) - independent of the Result arithmetic and of the incremental
bookkeeping.  The saved <fout>-<key>_iter-XXXX.npz files are read back with np.load and compared too;
in dump mode every _Kp-<ik>.pickle must hold its own K-point's payload.

A separate run class injects an OSError into one open/write: then run() may raise, but every
iteration it completed before must still satisfy the oracle (may fail, never wrong).
"""
import hashlib
import os
import pickle
import numpy as np

from .. import cases, zoo
from ..simrun import Harness, SimRay, VClock, SimLivelock, SimDisk, close, weighted_sum
from ..simdisk import Scratch
from wannierberri.grid import Kpoint as _kp

PROPERTY = "C10"
LEVEL = "exploration"
BUDGET = dict(quick=45, thorough=900)
MAX_RUNS = dict(quick=6000, thorough=10 ** 7)
RULE = ("each run draws lattice/point group, grid (regular or tetrahedral), refinement mesh, adpt_fac, iteration count, "
        "steering profile (which cells get refined: natural / hot spot / two hot spots / alternating / random), storage "
        "mode, serial or simulated-ray evaluation; after every iteration the reported integral is recomputed from "
        "scratch as sum factor_i*payload_i. distinct = hash of (configuration, sequence of refined-cell sets); "
        "non-trivial = at least one refinement iteration happened")
PROBES = ["absorb_old_new", "factor_below_1e-8", "factor_below_1e-8_refined", "klist_part_smaller_than_new",
          "dumped_result_reloaded", "mode_memory", "mode_dump", "mode_restartable", "mode_discard", "tetra_grid",
          "parallel_run", "real_run", "oserror_fired", "npz_files_checked", "kp_files_checked", "dead_point_revived",
          "smoothed_checked"]
REAL = ["run_grid.run", "run_grid.process", "Grid/GridTetra", "Kpoint classes (divide, absorb, dump/get results)",
        "exclude_equiv_points", "PointGroup", "ResultDict/EnergyResult arithmetic and save", "pickle/npy/npz I/O"]
STUB = ["Data_K (StubData) and calculators with known payload (stub runs)", "ray (SimRay) in parallel runs",
        "file completion / listing order (SimDisk over real tmpfs files)", "wall clock"]
ASSUMPTIONS = [
    "payload of a K-point = the arrays the driver received for it (copied at KpointBZ.set_result, i.e. after "
    "symmetrisation inside the task)",
    "equality means |a-b| <= 1e-10 * sum_i |f_i| max|r_i| + 1e-13",
    "under an injected OSError run() may raise; iterations completed before must still be right",
]

MODES = ["memory", "dump", "restartable", "discard"]


def simulate(dec, rec, tier="quick"):
    with Scratch("c10") as scr:
        return _simulate(dec, rec, tier, scr)


def _simulate(dec, rec, tier, scr):
    thorough = tier == "thorough"
    deep = dec.chance("cfg/deep", 1, 4)
    cfg = cases.draw_case(dec, kinds=("stub_int", "real"), kind_w=(12, 1), max_iter=7 if deep else (6 if thorough else 4),
                          big=thorough, deep=deep)
    if deep and cfg["kind"] == "stub_int":
        cfg["calc"] = cfg["calc"][:1]
        cfg["ncalc"] = 1
        cfg["calc"][0]["nE"] = 1
        cfg["adpt_fac"] = 1
        if cfg["grid_type"] == "Grid":
            cfg["adpt_mesh"] = [4, 3][dec("cfg/deep_mesh", 2)]
            cfg["adpt_num_iter"] = max(cfg["adpt_num_iter"], 5 + dec("cfg/deep_iter", 3))
    mode = MODES[dec.pick("cfg/mode", [3, 3, 3, 1])]
    if mode == "discard":
        cfg["adpt_num_iter"] = 0
    parallel = dec.chance("cfg/parallel", 1, 4)
    faulty = dec.chance("cfg/oserror", 1, 8)
    Klist_part = 1 + dec("cfg/Klist_part", 10)

    b = cases.build(cfg)
    clock = VClock()
    ray = SimRay(dec, rec, clock) if parallel else None
    disk = SimDisk(dec, rec)
    if faulty:
        disk.error_at = 1 + dec("fs/error_at", 150)
        disk.crash_cut = dec("fs/error_cut", 4)
    kdir = os.path.join(scr.path, "klist")
    fout = os.path.join(scr.path, "out")
    kwargs = dict(b["kwargs"])
    kwargs.update(parallel=parallel, fout_name=fout, file_Klist_path=kdir, Klist_part=Klist_part)
    if mode == "dump":
        kwargs["dump_results"] = True
    elif mode == "restartable":
        kwargs["allow_restart"] = True

    fails = []          # oracle failures found while the run proceeds
    refined_sets = hashlib.blake2b(digest_size=8)
    state = dict(prev_ids=None, min_factor=1.0, small_refined=False)

    def on_iteration(h, it):
        obs = h.obs
        kl = it["klist"]
        nz = [f for _, f in kl if f > 0]
        if nz:
            state["min_factor"] = min(state["min_factor"], min(nz))
        ids = [k for k, _ in kl]
        if state["prev_ids"] is not None:
            new = len(ids) - len(state["prev_ids"])
            if 0 < Klist_part < new:
                rec.fire("klist_part_smaller_than_new")
            # cells refined in the last step: previously positive weight, now zero
            prevf = state["prev_f"]
            refined = [i for i, (k, f) in enumerate(kl[:len(prevf)]) if f == 0 and prevf[i] > 0]
            refined_sets.update(repr(refined).encode())
            if any(0 < prevf[i] < 1e-8 for i in refined):
                state["small_refined"] = True
            if any(prevf[i] == 0 and kl[i][1] > 0 for i in range(len(prevf))):
                rec.fire("dead_point_revived")
        state["prev_ids"] = ids
        state["prev_f"] = [f for _, f in kl]
        for key, got in it["data"].items():
            try:
                want, scale = weighted_sum(obs, kl, key)
            except KeyError as e:
                fails.append(("unevaluated_weight", f"iteration {it['i_iter']}: {e}"))
                return
            ok, err = close(got, want, scale)
            if ok and key in it.get("smooth", {}):
                # the smoothed data (what the text file of this iteration holds) must be the smoothed weighted sum
                sm = b["calculators"][key].smoother
                want_s = sm(np.asarray(want), axis=0) if sm is not None else np.asarray(want)
                ok_s, err_s = close(it["smooth"][key], want_s, scale)
                rec.fire("smoothed_checked")
                if not ok_s:
                    fails.append(("smoothed_mismatch", f"iteration {it['i_iter']} result '{key}': the smoothed data written for this "
                                                       f"iteration differ from the smoothed weighted sum by {err_s:.3e} (scale {scale:.3e})"))
                    return
            if not ok:
                fails.append(("sum_mismatch", f"iteration {it['i_iter']} result '{key}': reported integral differs from "
                                              f"sum_i factor_i*result_i over the current K-list by {err:.3e} "
                                              f"(scale {scale:.3e}, rel {err / max(scale, 1e-300):.2e}); "
                                              f"{len(kl)} K-points, smallest positive weight {state['min_factor']:.2e}"))
                return

    def count_absorb(orig, h):
        def absorb(self_, other):
            if other is not None and self_.was_evaluated_flag and not other.was_evaluated_flag:
                rec.fire("absorb_old_new")
            return orig(self_, other)
        return absorb

    def count_reload(orig, h):
        def get_dumped_result(self_):
            rec.fire("dumped_result_reloaded")
            return orig(self_)
        return get_dumped_result

    h = Harness(dec, rec, clock=clock, ray=ray, disk=disk, on_iteration=on_iteration,
                extra_patches=[(_kp.KpointBZparallel, "absorb", count_absorb),
                               (_kp.KpointBZ, "get_dumped_result", count_reload)])
    exc = None
    res = None
    with h:
        try:
            res = h.run(b["system"], b["grid"], b["calculators"], **kwargs)
        except SimLivelock as e:
            exc = e
        except Exception as e:
            exc = e
    obs = h.obs
    niter = len(obs.iterations)
    counters = {"mode_" + mode: 1}
    if cfg.get("grid_type") == "GridTetra":
        counters["tetra_grid"] = 1
    if parallel:
        counters["parallel_run"] = 1
    if cfg["kind"] == "real":
        counters["real_run"] = 1
    if state["min_factor"] < 1e-8:
        counters["factor_below_1e-8"] = 1
    if state["small_refined"]:
        counters["factor_below_1e-8_refined"] = 1
    fault_fired = any(k.startswith("oserror_at_") for k in rec.fired)
    if fault_fired:
        counters["oserror_fired"] = 1
    sig = hashlib.blake2b((repr(sorted(cases.brief(cfg).items(), key=str)) + mode + refined_sets.hexdigest() +
                           str(niter)).encode(), digest_size=8).hexdigest()
    sample = dict(config=cases.brief(cfg), mode=mode, parallel=parallel, Klist_part=Klist_part, faulty=faulty,
                  iterations=niter, nK=len(obs.K_list) if obs.K_list is not None else 0,
                  min_positive_weight=state["min_factor"], listing=disk.listing)
    base = dict(sample=sample, sig=sig, nontrivial=niter >= 2, vtime=clock.t, counters=counters,
                real=REAL + (["Data_K_R + static calculators (real runs)"] if cfg["kind"] == "real" else []), stub=STUB)

    def viol(kind, msg):
        return dict(base, verdict="violation", kind=kind, message=msg)

    if fails:
        return viol(*fails[0])
    if exc is not None:
        if fault_fired and isinstance(exc, OSError):
            return dict(base, verdict="ok")          # may fail, never wrong: completed iterations were checked
        if isinstance(exc, SimLivelock):
            return dict(base, verdict="inconclusive", kind="livelock", message=str(exc))   # C12's business
        return viol("run_raises", f"run() raised {type(exc).__name__}: {exc} (mode {mode}, no fault injected)"
                    if not fault_fired else f"run() raised {type(exc).__name__}: {exc} after an injected OSError")
    # ---- returned value == last iteration == weighted sum
    last = obs.iterations[-1]
    from ..simrun import energy_arrays
    for key, got in energy_arrays(res).items():
        want, scale = weighted_sum(obs, last["klist"], key)
        # the K-list after the last iteration is not refined any more: current factors are those of `last`
        ok, err = close(got, want, scale)
        if not ok:
            return viol("sum_mismatch", f"returned result '{key}' differs from the weighted sum by {err:.3e} (scale {scale:.3e})")
        sm = getattr(b["calculators"][key], "smoother", None)
        if sm is not None and cfg["kind"] == "stub_int":
            ok_s, err_s = close(res.results[key].dataSmooth, sm(np.asarray(want), axis=0), scale)
            rec.fire("smoothed_checked")
            if not ok_s:
                return viol("smoothed_mismatch", f"returned result '{key}': dataSmooth differs from the smoothed weighted sum by "
                                                 f"{err_s:.3e} (scale {scale:.3e})")
    # ---- saved files
    for it in obs.iterations:
        for key in it["data"]:
            calc = b["calculators"][key]
            if "bin" not in str(getattr(calc, "save_mode", "")):
                continue
            fn = f"{fout}-{key}_iter-{it['i_iter']:04d}.npz"
            if not os.path.exists(fn):
                return viol("file_missing", f"{os.path.basename(fn)} was not written")
            with np.load(fn, allow_pickle=True) as z:
                data = z["data"]
            want, scale = weighted_sum(obs, it["klist"], key)
            ok, err = close(data, want, scale)
            rec.fire("npz_files_checked")
            if not ok:
                return viol("file_mismatch", f"{os.path.basename(fn)} differs from the weighted sum by {err:.3e} (scale {scale:.3e})")
    if mode == "dump" and obs.K_list is not None:
        for K in obs.K_list:
            if getattr(K, "res_dumped_flag", False) and id(K) in obs.payload:
                try:
                    with open(K.result_storage_path, "rb") as f:
                        r = pickle.load(f)
                except Exception as e:
                    return viol("kp_file", f"{os.path.basename(str(K.result_storage_path))} cannot be read: {e}")
                rec.fire("kp_files_checked")
                for key, arr in obs.payload[id(K)][1].items():
                    if not np.array_equal(r.results[key].data, arr):
                        return viol("kp_file", f"{os.path.basename(K.result_storage_path)} does not hold its K-point's result '{key}'")
    return dict(base, verdict="ok")
