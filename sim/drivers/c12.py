"""C12 - parallel evaluation gives the same results as serial evaluation.

One simulated run = one configuration executed twice with fresh objects: serially (real serial
branch of run_grid.process) and under SimRay with a drawn worker count, duration profile, driver
cost profile, start order and ready-subset policy.  Oracle: integrated results of every iteration
and the returned value are equal; tabulations are equal point by point, in grid / path order, each
slot holding the value of its own k-point; the collection loop terminates within a bounded number
of ray calls once the last task has completed; ray is initialised with the checkout's package
directory in runtime_env.py_modules.
"""
import hashlib
import os
import numpy as np

from .. import cases, zoo
from ..simrun import Harness, SimRay, VClock, SimLivelock, close, weighted_sum
from wannierberri.result import EnergyResult
from wannierberri.result.tabresult import TABresult

PROPERTY = "C12"
LEVEL = "exploration"
BUDGET = dict(quick=45, thorough=900)
MAX_RUNS = dict(quick=4000, thorough=10 ** 7)
RULE = ("each run draws a configuration (lattice/point group, grid or path, stub or real calculators, refinement "
        "history steered by a stub calculator) and a ray schedule (workers, task durations, start order, driver cost, "
        "ready-subset policy of ray.wait); the configuration is executed serially and under SimRay and compared. "
        "distinct = distinct (configuration, completion order, sequence of ready subsets) hashes; non-trivial = the "
        "parallel run had at least 2 remote tasks")
PROBES = ["wait_non_nested", "wait_surplus", "wait_timeout", "straggler", "stalled_task", "wait_all_at_once",
          "refined_in_parallel", "path_run", "tabgrid_run", "real_run", "runtime_env_checked", "primed_by_earlier_run"]
REAL = ["run_grid.run", "run_grid.process", "Grid/GridTetra/Path", "Kpoint classes", "exclude_equiv_points",
        "PointGroup.symmetrize", "ResultDict/EnergyResult/KBandResult/TABresult", "parallel.ray_init*",
        "Data_K_R + static calculators + Tabulators (real runs)"]
STUB = ["ray (SimRay: discrete-event model with pickle round trip)", "wall clock", "Data_K (StubData) and calculators "
        "with known payload (stub runs)"]
ASSUMPTIONS = [
    "SimRay implements the documented contract of ray.put/remote/wait/get and the observed ready-subset behaviour "
    "of ray 2.48 (arbitrary subset of the ready refs, input order preserved); ray-internal failures are not modelled",
    "ray honours runtime_env.py_modules (only that the checkout is passed is checked)",
    "equality of integrals means |a-b| <= 1e-10 * sum_i |f_i| max|r_i|",
]


def _run_once(dec, rec, cfg, parallel, label, prime_cfg=None):
    b = cases.build(cfg)
    clock = VClock()
    ray = SimRay(dec, rec, clock) if parallel else None
    info = {}
    if parallel:
        _init_ray(dec, rec, ray, info)
    h = Harness(dec, rec, clock=clock, ray=ray)
    out = dict(label=label, livelock=None, exc=None)
    with h:
        if prime_cfg is not None:
            # an earlier, unrelated parallel run() in the same process and the same ray session: whatever it leaves behind
            # (objects put into the object store, module-level state) must not reach the run that is compared
            try:
                pb = cases.build(prime_cfg)
                h.run(pb["system"], pb["grid"], pb["calculators"], parallel=parallel,
                      fout_name=os.path.join(SCR, "out_prime_" + label), **pb["kwargs"])
                rec.fire("primed_by_earlier_run")
            except (SimLivelock, Exception):
                pass
            h.obs.__init__()
        try:
            res = h.run(b["system"], b["grid"], b["calculators"], parallel=parallel,
                        fout_name=os.path.join(SCR, "out_" + label), **b["kwargs"])
            out["res"] = res
        except SimLivelock as e:
            out["livelock"] = str(e)
        except Exception as e:
            out["exc"] = f"{type(e).__name__}: {e}"
    out.update(obs=h.obs, ray=ray, b=b, vtime=clock.t, info=info)
    return out


def _init_ray(dec, rec, ray, info):
    """initialise the (simulated) ray through the repository's own helpers and check the worker environment"""
    import wannierberri
    from wannierberri import parallel as wbpar
    how = dec.pick("rayinit/how", [3, 2, 2, 1])
    ray.initialized = False
    from .. import simray
    simray.install(ray)
    pkg = os.path.dirname(os.path.abspath(wannierberri.__file__))
    user_env = None
    try:
        if how == 0:
            wbpar.ray_init(num_cpus=ray.ncpu)
        elif how == 1:
            user_env = {"env_vars": {"OMP_NUM_THREADS": "1"}, "py_modules": ["/some/other/module"]}
            wbpar.ray_init(num_cpus=ray.ncpu, runtime_env=user_env)
        elif how == 2:
            os.environ["ip_head"] = "10.0.0.1:6379"
            os.environ["redis_password"] = "pw"
            wbpar.ray_init_cluster(num_cpus=ray.ncpu)
        else:
            wbpar.ray_init(num_cpus=ray.ncpu, use_current_checkout=False)
    finally:
        simray.uninstall()
    kw = ray.init_kwargs or {}
    info["how"] = how
    if how in (0, 1, 2):
        rec.fire("runtime_env_checked")
        mods = (kw.get("runtime_env") or {}).get("py_modules", [])
        if pkg not in [os.path.abspath(m) for m in mods]:
            info["env_violation"] = f"ray.init was not given the checkout {pkg} in runtime_env.py_modules (got {mods})"
        if how == 1:
            env = kw.get("runtime_env") or {}
            if env.get("env_vars") != user_env["env_vars"] or "/some/other/module" not in env.get("py_modules", []):
                info["env_violation"] = f"user runtime_env was not preserved: {env}"
    if not ray.initialized:
        info["env_violation"] = "ray_init did not initialise ray"
        ray.initialized = True


SCR = "/tmp"


def simulate(dec, rec, tier="quick"):
    from ..simdisk import Scratch
    global SCR
    with Scratch("c12") as scr:
        SCR = scr.path
        return _simulate(dec, rec, tier)


def _simulate(dec, rec, tier):
    cfg = cases.draw_case(dec, big=(tier == "thorough"))
    prime_cfg = None
    if dec.chance("cfg/prime", 1, 3):
        prime_cfg = cases.draw_case(dec, p="cfg2", kinds=("stub_int", "real"), kind_w=(3, 1), max_iter=1)
    ser = _run_once(dec, rec, cfg, False, "serial")
    par = _run_once(dec, rec, cfg, True, "parallel", prime_cfg=prime_cfg)
    ray = par["ray"]
    sig = hashlib.blake2b((repr(sorted(cases.brief(cfg).items(), key=str)) + ray.schedule_digest()).encode(),
                          digest_size=8).hexdigest()
    sample = dict(config=cases.brief(cfg), ray=dict(ncpu=ray.ncpu, profile=ray.profile, driver=ray.driver,
                                                   sched=ray.sched, waitpol=ray.waitpol, tasks=ray.ntasks,
                                                   waits=ray.nwait, completion_order=ray.completion_order[:24]))
    base = dict(sample=sample, sig=sig, nontrivial=ray.ntasks >= 2, vtime=par["vtime"],
                real=REAL[:-1] + ([REAL[-1]] if cfg["kind"] == "real" else []), stub=STUB)
    counters = {}
    if cfg["kind"] == "stub_path":
        counters["path_run"] = 1
    if cfg["kind"] == "stub_tabgrid":
        counters["tabgrid_run"] = 1
    if cfg["kind"] == "real":
        counters["real_run"] = 1
    if cfg.get("adpt_num_iter", 0) > 0:
        counters["refined_in_parallel"] = 1
    base["counters"] = counters

    def viol(kind, msg):
        return dict(base, verdict="violation", kind=kind, message=msg)

    if ser["exc"] or ser["livelock"]:
        # the serial reference itself failed: nothing to compare against
        if par["exc"] and par["exc"].split(":")[0] == (ser["exc"] or "").split(":")[0]:
            return dict(base, verdict="inconclusive", kind="both_raise", message=ser["exc"])
        return dict(base, verdict="inconclusive", kind="serial_failed", message=str(ser["exc"] or ser["livelock"]))
    if par["info"].get("env_violation"):
        return viol("runtime_env", par["info"]["env_violation"])
    if par["livelock"]:
        return viol("no_progress", par["livelock"])
    if par["exc"]:
        return viol("parallel_raises", f"serial run returned, parallel run raised {par['exc']}")

    so, po = ser["obs"], par["obs"]
    # ---- integrated results, every iteration
    if len(so.iterations) != len(po.iterations):
        return viol("iterations", f"serial run saved {len(so.iterations)} iterations, parallel {len(po.iterations)}")
    for its, itp in zip(so.iterations, po.iterations):
        for key, a in its["data"].items():
            _, scale = weighted_sum(so, its["klist"], key)
            ok, err = close(a, itp["data"].get(key), scale)
            if not ok:
                dup = len(po.set_result_calls) - len(set(po.set_result_calls))
                return viol("integral_differs",
                            f"iteration {its['i_iter']} result '{key}': parallel differs from serial by {err:.3e} "
                            f"(scale {scale:.3e}); K-points accumulated more than once in the parallel run: {dup}")
    rs, rp = ser["res"], par["res"]
    for key, v in rs.results.items():
        w = rp.results.get(key)
        if isinstance(v, EnergyResult):
            _, scale = weighted_sum(so, so.iterations[-1]["klist"], key)
            ok, err = close(v.data, w.data, scale)
            if not ok:
                return viol("integral_differs", f"returned result '{key}' differs by {err:.3e} (scale {scale:.3e})")
        elif isinstance(v, TABresult):
            r = _compare_tab(cfg, ser, par, v, w)
            if r:
                return viol(*r)
    return dict(base, verdict="ok")


def _compare_tab(cfg, ser, par, v, w):
    kind = cfg["kind"]
    if v.kpoints.shape != w.kpoints.shape or np.max(np.abs(v.kpoints - w.kpoints)) > 1e-12:
        return ("tab_kpoints", "tabulated k-points of the parallel run differ from the serial run")
    if kind == "stub_path":
        path = par["b"]["grid"]
        if w.kpoints.shape != path.K_list.shape or np.max(np.abs(w.kpoints - path.K_list)) > 1e-12:
            return ("tab_kpoints", "returned k-points are not the path's K_list")
    if kind == "stub_tabgrid":
        N = np.array(cfg["NKdiv"]) * np.array(cfg["NKFFT"])
        g = np.array(np.meshgrid(*[np.arange(n) / n for n in N], indexing="ij")).reshape(3, -1).T
        if w.kpoints.shape != g.shape or np.max(np.abs(w.kpoints - g)) > 1e-9:
            return ("tab_kpoints", f"returned k-points are not the C-ordered {N} grid")
    for q in v.results:
        a, b = v.results[q].data, w.results[q].data
        if a.shape != b.shape or np.max(np.abs(a - b)) > 1e-10 * max(1.0, np.max(np.abs(a))):
            bad = int(np.argmax(np.abs(a - b).reshape(len(a), -1).max(axis=1))) if a.shape == b.shape else -1
            return ("tab_differs", f"tabulated '{q}' differs between serial and parallel run (first at point {bad})")
    if kind in ("stub_path", "stub_tabgrid"):
        tabs = par["b"]["aux"]["tabs"]
        for q, t in tabs.items():
            own = t.value_at(w.kpoints)
            got = w.results[q].data
            if own.shape != got.shape or np.max(np.abs(own - got)) > 1e-10:
                bad = int(np.argmax(np.abs(own - got).reshape(len(own), -1).max(axis=1))) if own.shape == got.shape else -1
                return ("tab_not_own_value", f"slot {bad} of '{q}' does not hold the value of its own k-point "
                                             f"{w.kpoints[bad] if bad >= 0 else ''}")
    return None
