"""C04 - interpolated k-resolved quantities are periodic and gauge independent.

Gauge half (by simulation): the basis LAPACK returns inside a degenerate eigenspace is arbitrary.
wannierberri ships its own perturbation point for it, Data_K(random_gauge=True), driven by the
global numpy RNG.  The simulator owns that RNG (seed = decision) and treats every draw of a random
unitary as an injected fault that must leave every tabulated and integrated result unchanged.
One simulated run = one system with exact degeneracies (spin-doubled random Hermitian system with
AA/BB/CC and a random Hermitian spin matrix), a reference evaluation (random_gauge=False) and m
gauge-fault evaluations: evaluate_k for all named quantities at drawn k, and run() with
{AHC, Morb, Spin, DOS, CumDOS, Ohmic, BerryDipole, TabulatorAll}.
Periodicity half (by-product, no simulation strength claimed): the same evaluations at k and k+G.
"""
import hashlib
import os
import numpy as np
import scipy.stats

import wannierberri as wb
from .. import zoo
from ..simrun import Harness, VClock
from ..simdisk import Scratch
from ..simrun import energy_arrays

PROPERTY = "C04"
LEVEL = "exploration"
BUDGET = dict(quick=45, thorough=900)
MAX_RUNS = dict(quick=3000, thorough=10 ** 7)
RULE = ("each run draws a spin-doubled random Hermitian system (exact twofold degeneracies, external-term matrices, random "
        "Hermitian spin matrix), k-points, integer G, a grid and calculators; the reference (random_gauge off) is compared with "
        "m evaluations under random_gauge with different RNG seeds (each random unitary applied to a degenerate block = one "
        "injected fault). distinct = hash of (system, k, G, grid, calculators, gauge seeds); non-trivial = at least one "
        "degenerate block was actually rotated")
PROBES = ["gauge_blocks_rotated", "gauge_runs", "evaluate_k_compared", "run_compared",
          "vacuous_outputs", "periodicity_compared", "tabulated_compared", "kramers_system", "tetra_run", "near_degenerate_system"]
REAL = ["Data_K / Data_K_R (random_gauge, UU_K, degen)", "evaluate_k", "formula.covariant / Formula_ln.trace", "static calculators",
        "Tabulators", "run_grid.run"]
STUB = ["numpy global RNG seeded by the simulator; scipy.stats.unitary_group.rvs wrapped to count rotated blocks"]
ASSUMPTIONS = [
    "equality: |a-b| <= 1e-8 * max(|reference|, same quantity on the non-doubled parent system) + 1e-13; outputs below 1e-12 of "
    "that scale in both runs are counted as vacuous",
    "k and k+G comparison is an input-level by-product",
]

QNAMES = ["energy", "band_gradients", "berry_curvature", "berry_curvature_internal_terms", "berry_curvature_external_terms", "spin"]


def _calcs(names, Ef, tab, tetra=False):
    c = zoo.real_calculators(names, Ef, tetra=tetra)
    if tab:
        c["tabulate"] = zoo.real_tabulators(["Energy", "berry", "vel", "spin"], mode="grid")
    return c


def simulate(dec, rec, tier="quick"):
    with Scratch("c04") as scr:
        return _simulate(dec, rec, tier, scr)


def _simulate(dec, rec, tier, scr):
    thorough = tier == "thorough"
    seed = 1 + dec("sys/seed", 500)
    nw = 1 + dec("sys/num_wann", 3 if thorough else 2)
    morb = bool(dec.chance("sys/morb", 1, 2))
    kw = dict(num_wann=nw, nRvec=6 + dec("sys/nR", 6), max_R=2, berry=True, morb=morb)
    system = zoo.make_random_system(seed, double_spin=True, random_spin=True, **kw)
    parent = zoo.make_random_system(seed, double_spin=False, spin=False, **kw)
    # second system class: a time-reversal symmetric spinful Hamiltonian (H_R = T H_R^* T^-1, T = i sigma_y K): Kramers pairs
    # at the time-reversal invariant momenta ONLY, so that a degenerate multiplet at a grid point splits at the corners
    # of its cell (what the tetrahedron method looks at) and at the neighbouring k-points
    kramers = bool(dec.chance("sys/kramers", 1, 3))
    if kramers:
        rec.fire("kramers_system")
        T = np.kron(np.eye(nw), np.array([[0, 1], [-1, 0]]))
        rs = np.random.RandomState(seed + 31)
        shape = system.get_R_mat("Ham").shape
        X = rs.random_sample(shape) + 1j * rs.random_sample(shape) - 0.5 - 0.5j
        X = 0.5 * (X + np.einsum("ab,Rbc,dc->Rad", T, X.conj(), T))
        system.set_R_mat("Ham", X, Hermitian=True, reset=True)
    # third class: NEARLY degenerate pairs - the second spin copy is shifted on-site by 1e-6..3e-6 eV, far below the 1e-4 eV
    # within which random_gauge rotates (and the calculators group) bands.  The rotated states are eigenstates only up to
    # split/gap, so invariance is demanded to 1e-4 of the scale here instead of 1e-8.
    near = (not kramers) and bool(dec.chance("sys/near_degenerate", 1, 4))
    rtol = 1e-8
    if near:
        rec.fire("near_degenerate_system")
        split = [1e-6, 3e-6][dec("sys/split", 2)]
        H = system.get_R_mat("Ham").copy()
        iR0 = system.rvec.iR0
        for i in range(1, 2 * nw, 2):
            H[iR0, i, i] += split
        system.set_R_mat("Ham", H, reset=True)
        rtol = 1e-4
    k = np.array([0.01 * (1 + dec(f"k/{i}", 98)) + 0.0037 for i in range(3)])
    if kramers and dec.chance("k/trim", 1, 2):
        k = np.array([0.5 * dec(f"k/trim/{i}", 2) for i in range(3)])
    G = np.array([dec(f"G/{i}", 5) - 2 for i in range(3)])
    nq = 1 + dec("q/n", len(QNAMES))
    qs = sorted({QNAMES[dec(f"q/{i}", len(QNAMES))] for i in range(nq)} | {"energy"})
    cset = [["ahc", "dos"], ["cumdos", "spin"], ["ahc", "ohmic", "bcd"], ["morb", "ahc"] if morb else ["ahc", "spin"],
            ["dos", "cumdos", "ohmic_surf"]][dec("calc/set", 5)]
    tab = bool(dec.chance("calc/tab", 1, 2))
    NKdiv = [[2, 1, 3][dec(f"grid/div/{i}", 3)] for i in range(3)]
    NKFFT = [[2, 1, 3][dec(f"grid/fft/{i}", 3)] for i in range(3)]
    if kramers:      # an even grid contains all eight time-reversal invariant momenta
        NKdiv = [[2, 1][dec(f"grid/div/{i}", 2)] for i in range(3)]
        NKFFT = [2 if d == 1 else [1, 2][dec(f"grid/fft/{i}", 2)] for i, d in enumerate(NKdiv)]
    tetra = bool(dec.chance("calc/tetra", 1, 3))
    if tetra:
        rec.fire("tetra_run")
    m = 1 + dec("gauge/m", 3)
    lo = [-1.0, -0.6, -0.3, 0.0, 0.3, -1.5][dec("calc/Ef_lo", 6)]
    Ef = zoo.fermi_grid(4 + dec("calc/nEf", 3), lo, lo + [4.0, 1.0, 0.6][dec("calc/Ef_span", 3)])
    sample = dict(num_wann=2 * nw, morb=morb, k=k.tolist(), G=G.tolist(), quantities=qs, calculators=cset, tabulate=tab,
                  NKdiv=NKdiv, NKFFT=NKFFT, gauge_runs=m, kramers=kramers, tetra=tetra, near_degenerate=near)
    base = dict(sample=sample, counters={}, real=REAL, stub=STUB, vtime=0.0)
    hist = [seed, nw, morb, k.tolist(), G.tolist(), qs, cset, tab, NKdiv, NKFFT, kramers, tetra, near]

    def finish(viol=None, nontrivial=True):
        sig = hashlib.blake2b(repr(hist).encode(), digest_size=8).hexdigest()
        out = dict(base, sig=sig, nontrivial=nontrivial, verdict="ok")
        if viol:
            out.update(verdict="violation", kind=viol[0], message=viol[1])
        return out

    # count the random unitaries actually applied
    blocks = [0]
    orig_rvs = scipy.stats.unitary_group.rvs

    def counting_rvs(*a, **kw_):
        blocks[0] += 1
        return orig_rvs(*a, **kw_)

    def eval_all(sys_, pk, with_spin=True):
        """evaluate_k at k (and k+G), run() on the grid"""
        out = {}
        names = [q for q in qs if with_spin or q != "spin"]
        with zoo.quiet():
            out["ek"] = wb.evaluate_k(sys_, k=tuple(k), quantities=names, return_single_as_dict=True, parameters_K=pk)
            out["ekG"] = wb.evaluate_k(sys_, k=tuple(k + G), quantities=names, return_single_as_dict=True, parameters_K=pk)
            grid = wb.Grid(system=sys_, NKdiv=NKdiv, NKFFT=NKFFT, use_symmetry=False)
            cnames = [c for c in cset if with_spin or c != "spin"]
            calcs = _calcs(cnames, Ef, tab, tetra)
            if not with_spin and tab:
                calcs["tabulate"] = zoo.real_tabulators(["Energy", "berry", "vel"], mode="grid")
            res = wb.run(sys_, grid, calcs, parallel=False, use_irred_kpt=False, symmetrize=False,
                         fout_name=os.path.join(scr.path, "out"), parameters_K=pk)
        out["run"] = energy_arrays(res)
        if tab:
            t = res.results["tabulate"]
            out["tab"] = {q: np.array(t.results[q].data) for q in t.results}
        return out

    with Harness(dec, rec, clock=VClock(), snapshot_klist=False):
        try:
            ref = eval_all(system, {})
            par = eval_all(parent, {}, with_spin=False)
        except Exception as e:
            return dict(finish(), verdict="inconclusive", kind="reference_raises", message=f"{type(e).__name__}: {e}")

        def scale_of(group, key):
            a = np.max(np.abs(ref[group][key])) if np.size(ref[group][key]) else 0.0
            b = np.max(np.abs(par[group][key])) if key in par.get(group, {}) and np.size(par[group][key]) else 0.0
            return float(max(a, b))

        # ---- by-product: periodicity k vs k+G on the reference
        for q in ref["ek"]:
            sc = scale_of("ek", q)
            rec.fire("periodicity_compared")
            if np.max(np.abs(ref["ek"][q] - ref["ekG"][q])) > rtol * sc + 1e-13:
                return finish(("not_periodic", f"'{q}' at k={k.tolist()} and at k+G, G={G.tolist()}, differ by "
                                               f"{np.max(np.abs(ref['ek'][q] - ref['ekG'][q])):.3e} (scale {sc:.3e})"))
        # ---- gauge faults
        scipy.stats.unitary_group.rvs = counting_rvs
        try:
            for j in range(m):
                gseed = 1 + dec(f"gauge/seed/{j}", 10 ** 6)
                hist.append(gseed)
                np.random.seed(gseed)
                blocks[0] = 0
                rec.fire("gauge_runs")
                try:
                    got = eval_all(system, dict(random_gauge=True))
                except Exception as e:
                    return finish(("gauge_option_raises", f"evaluation with parameters_K={{'random_gauge': True}} raised "
                                                          f"{type(e).__name__}: {e}"))
                if blocks[0] == 0:
                    rec.fire("gauge_fault_not_fired")
                    continue
                rec.fire("gauge_blocks_rotated", blocks[0])
                for group, counter in (("ek", "evaluate_k_compared"), ("run", "run_compared"), ("tab", "tabulated_compared")):
                    if group not in ref:
                        continue
                    for key, want in ref[group].items():
                        sc = scale_of(group, key)
                        g = got[group][key]
                        rec.fire(counter)
                        if max(np.max(np.abs(want)) if np.size(want) else 0, np.max(np.abs(g)) if np.size(g) else 0) < 1e-12 * max(sc, 1e-300):
                            rec.fire("vacuous_outputs")
                            continue
                        err = float(np.max(np.abs(np.asarray(g) - np.asarray(want)))) if np.shape(g) == np.shape(want) else np.inf
                        if not err <= rtol * sc + 1e-13:
                            what = dict(ek="evaluate_k quantity", run="run() result", tab="tabulated quantity")[group]
                            return finish(("gauge_dependent", f"{what} '{key}' changes by {err:.3e} (scale {sc:.3e}) under a random "
                                                              f"unitary rotation of the degenerate eigenvectors (RNG seed {gseed}, "
                                                              f"{blocks[0]} blocks rotated)"))
        finally:
            scipy.stats.unitary_group.rvs = orig_rvs
    return finish(nontrivial=True)
