"""C03 - integrals depend only on the k-point set, not on its FFT factorisation (nor on the FFT library).

One simulated run = one k-point set N1 x N2 x N3 on one system, executed under EVERY factorisation
N_i = NKdiv_i x NKFFT_i (including FFT grids below NKFFT_recommended and non-uniform ones), each with
a drawn FFT library and either serially or under SimRay with a drawn schedule.
Oracle (a): every EnergyResult equals that of the canonical factorisation NKFFT=(1,1,1), serial, numpy.
Oracle (b) (stub calculator on the real Data_K): equals the independent reference sum_k g(k)/N over the
explicit grid, and every k of the full grid was handed to the calculator exactly once.
"""
import hashlib
import os
import numpy as np

import wannierberri as wb
from .. import zoo, factor_common as F
from ..simrun import Harness, SimRay, VClock, SimLivelock, close, energy_arrays
from ..simdisk import Scratch
from wannierberri.result.tabresult import TABresult

PROPERTY = "C03"
LEVEL = "exploration"
BUDGET = dict(quick=35, thorough=900)
MAX_RUNS = dict(quick=3000, thorough=10 ** 7)
RULE = ("each run draws a system (random Hermitian 2-4 Wannier functions with external terms, Haldane (2D, C3z), chiral 3D "
        "model (C3z)), a k-grid N, calculators (static Fermi-sea / Fermi-surface, tetrahedron variants, dynamic, a stub on the "
        "real Data_K) and executes ALL factorisations of N, each with a drawn FFT library and serial-or-simulated-ray schedule; "
        "distinct = distinct (system, N, factorisation, library, schedule hash) tuples; non-trivial = factorisation with "
        "NKFFT != (1,1,1)")
PROBES = ["factorisations_run", "fft_below_recommended", "nonuniform_factorisation", "lib_fftw", "lib_numpy", "parallel_factorisation",
          "stub_reference_checked", "exactly_once_checked", "tetra_run", "symmetric_run", "dynamic_calc"]
REAL = ["Grid / determineNK", "KpointBZ.Kp_fullBZ", "Data_K_R (kpoints_all, FFT R->k, expdK)", "static and dynamic calculators",
        "run_grid.run / process", "PointGroup.symmetrize (symmetric runs)"]
STUB = ["ray (SimRay) for the parallel factorisations", "k-sum stub calculator (on the real Data_K)"]
ASSUMPTIONS = [
    "equality: |a-b| <= 1e-8 * max|reference| + 1e-12 (a wrong phase or placement is O(1))",
    "Fermi grids carry an irrational offset, so no band energy sits on a bin edge",
]


def _run(dec, rec, cfg, system, NKdiv, NKFFT, fftlib, parallel, scr, tag, mode="grid"):
    calcs, stub = F.build_calculators(cfg, system, mode=mode)
    F.KSumStub.SEEN = seen = []
    with zoo.quiet():
        grid = wb.Grid(system=system, NKdiv=list(NKdiv), NKFFT=list(NKFFT), use_symmetry=cfg["use_irred_kpt"])
    clock = VClock()
    ray = SimRay(dec, rec, clock, prefix=f"ray{tag}") if parallel else None
    h = Harness(dec, rec, clock=clock, ray=ray, snapshot_klist=False)
    out = dict(exc=None, res=None, seen=seen, stub=stub, ray=ray, vtime=0.0)
    with h:
        try:
            res = h.run(system, grid, calcs, parallel=parallel, fout_name=os.path.join(scr.path, f"out{tag}"),
                        use_irred_kpt=cfg["use_irred_kpt"], symmetrize=cfg["use_irred_kpt"],
                        parameters_K=dict(fftlib=fftlib))
            out["res"] = res
        except SimLivelock as e:
            out["exc"] = e
        except Exception as e:
            out["exc"] = e
    out["vtime"] = clock.t
    return out


def simulate(dec, rec, tier="quick"):
    with Scratch("c03") as scr:
        return _simulate(dec, rec, tier, scr)


def _simulate(dec, rec, tier, scr, want_tab=False, check_tab=None):
    thorough = tier == "thorough"
    cfg = F.draw_case(dec, thorough=thorough, want_tab=want_tab)
    system = F.build_system(cfg)
    N = cfg["N"]
    facs = F.all_factorisations(N, cfg["constraint"], cfg["periodic"])
    rec_nk = np.array(system.NKFFT_recommended)
    sample = dict(system=cfg["system"], N=N, calcs=cfg["calcs"], tetra=cfg["tetra"], stub=cfg["stub"], tab=cfg["tab"],
                  use_irred_kpt=cfg["use_irred_kpt"], factorisations=len(facs), NKFFT_recommended=rec_nk.tolist(), runs=[])
    base = dict(sample=sample, counters={}, real=REAL, stub=STUB, vtime=0.0)
    if cfg["tetra"]:
        rec.fire("tetra_run")
    if cfg["use_irred_kpt"]:
        rec.fire("symmetric_run")
    if any(c in cfg["calcs"] for c in ("jdos", "optcond")):
        rec.fire("dynamic_calc")
    sigs = hashlib.blake2b(digest_size=8)
    sigs.update(repr((cfg["system"], cfg["sys_seed"], N, cfg["calcs"], cfg["tetra"])).encode())

    def finish(viol=None, inconclusive=None, extra_dec=None):
        out = dict(base, sig=sigs.hexdigest(), nontrivial=len(facs) > 1, verdict="ok")
        if viol:
            out.update(verdict="violation", kind=viol[0], message=viol[1])
        if inconclusive:
            out.update(verdict="inconclusive", kind=inconclusive[0], message=inconclusive[1])
        if extra_dec:
            out["decisions_extra"] = extra_dec
        return out

    # canonical reference: NKFFT = 1 in every direction, serial, numpy
    f0 = (tuple(N), (1, 1, 1))
    ref = _run(dec, rec, cfg, system, f0[0], f0[1], "numpy", False, scr, "ref")
    if ref["exc"] is not None:
        # a legitimate grid / calculator combination for which run() returns nothing: the property cannot hold
        return finish(("run_raises", f"run() with NKdiv={list(N)} x NKFFT=[1,1,1] (serial, numpy) raised "
                                     f"{type(ref['exc']).__name__}: {ref['exc']}"))
    refE = energy_arrays(ref["res"])
    if ref["stub"] is not None:
        want = ref["stub"].reference(N)
        ok, err = close(refE["ksum"], want, float(np.max(np.abs(want))), rtol=1e-9)
        rec.fire("stub_reference_checked")
        if not ok:
            return finish(("stub_reference", f"canonical factorisation: sum over the grid of the stub field differs from the "
                                             f"independent reference by {err:.3e}"))
    only = dec.forced("sweep/only")
    for idx, (NKdiv, NKFFT) in enumerate(facs):
        if only and idx + 1 != only:
            continue
        lib = ["fftw", "numpy"][dec(f"fac/{idx}/lib", 2)]
        parallel = bool(dec.chance(f"fac/{idx}/parallel", 1, 4))
        rec.fire("factorisations_run")
        rec.fire("lib_" + lib)
        if parallel:
            rec.fire("parallel_factorisation")
        if any(f < r for f, r, p in zip(NKFFT, rec_nk, cfg["periodic"]) if p):
            rec.fire("fft_below_recommended")
        if len(set(NKFFT)) > 1 or len(set(NKdiv)) > 1:
            rec.fire("nonuniform_factorisation")
        r = _run(dec, rec, cfg, system, NKdiv, NKFFT, lib, parallel, scr, f"f{idx}")
        base["vtime"] += r["vtime"]
        desc = f"NKdiv={list(NKdiv)} x NKFFT={list(NKFFT)} ({lib}, {'simulated ray' if parallel else 'serial'})"
        sample["runs"].append(dict(NKdiv=list(NKdiv), NKFFT=list(NKFFT), lib=lib, parallel=parallel))
        sigs.update(repr((NKdiv, NKFFT, lib, r["ray"].schedule_digest() if r["ray"] else "")).encode())
        pin = {"sweep/only": idx + 1}
        if r["exc"] is not None:
            if isinstance(r["exc"], SimLivelock):
                return finish(inconclusive=("livelock", str(r["exc"])))
            return finish(("factorisation_raises", f"{desc} raised {type(r['exc']).__name__}: {r['exc']} "
                                                   f"(the canonical factorisation of the same grid did not)"), extra_dec=pin)
        gotE = energy_arrays(r["res"])
        for key, want in refE.items():
            got = gotE.get(key)
            ok, err = close(got, want, float(np.max(np.abs(want))), rtol=1e-8, atol=1e-12) if got is not None else (False, np.inf)
            if not ok:
                return finish(("factorisation_differs", f"result '{key}' for {desc} differs from NKdiv={N} x NKFFT=[1,1,1] "
                                                        f"by {err:.3e} (max |reference| {np.max(np.abs(want)):.3e})"), extra_dec=pin)
        if r["stub"] is not None:
            allk = np.vstack(r["seen"]) % 1
            rec.fire("exactly_once_checked")
            idxs = np.rint(allk * np.array(N)).astype(int) % np.array(N)
            if np.max(np.abs(allk * np.array(N) - np.rint(allk * np.array(N)))) > 1e-7:
                return finish(("placement", f"{desc}: a k-point handed to the calculators is not on the {N} grid"), extra_dec=pin)
            count = np.zeros(tuple(N), dtype=int)
            np.add.at(count, tuple(idxs.T), 1)
            if np.any(count != 1):
                bad = np.argwhere(count != 1)[0]
                return finish(("placement", f"{desc}: grid point {tuple(int(b) for b in bad)} was evaluated {count[tuple(bad)]} times"),
                              extra_dec=pin)
        if check_tab is not None and cfg["tab"]:
            v = check_tab(cfg, system, ref, r, desc, rec)
            if v:
                return finish(v, extra_dec=pin)
    return finish()
