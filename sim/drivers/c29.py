"""C29 - paths are built and tabulated faithfully (evaluation half by simulation).

One simulated run = one *process image* (a forked child) in which a history of 2-5 API calls is
executed: evaluate_k_path (serial, or parallel under SimRay with a drawn schedule and k_batch) and
evaluate_k, with different quantities, band selections and user tabulators.
Reference model: for every path point, every named quantity is computed FIRST - before any history
step - with freshly constructed tabulators on a one-point Data_K.  Oracle: every call of the history
returns, for every path point and in path order, exactly those values (for the selected bands); the
returned k-points equal path.K_list; a call that is valid in a fresh process must not raise because of
what an earlier call did.
By-product (no simulation strength claimed): nodes/labels/uniform sampling/get_refined/getKline of the
generated paths.
"""
import hashlib
import numpy as np

import wannierberri as wb
from wannierberri.calculators import tabulate as T
from wannierberri.data_K import get_data_k_class_from_system

from .. import zoo
from ..simrun import Harness, SimRay, VClock, SimLivelock
from ..simdisk import Scratch

PROPERTY = "C29"
ISOLATION = "fork"          # the property is about what survives between API calls in one process
LANES = 12                  # forked children fault in fresh pages, which does not scale in this sandbox (DESIGN 2.5)
LEVEL = "exploration"
BUDGET = dict(quick=45, thorough=900)
MAX_RUNS = dict(quick=3000, thorough=10 ** 7)
RULE = ("each run (a fresh process image) draws a random Hermitian system with external terms and spin, a path (nodes with breaks, "
        "revisited points, points outside the first cell), and a history of 2-5 evaluate_k_path / evaluate_k calls with drawn "
        "quantities, band selections, k_batch, user tabulators and serial-or-simulated-ray evaluation; distinct = hash of "
        "(system, path, sequence of calls with their arguments, ray schedule); non-trivial = history of at least 2 calls")
PROBES = ["path_calls", "point_calls", "parallel_path_call", "band_selection_call", "call_after_band_selection", "user_tabulator_call",
          "path_with_break", "path_points_checked", "path_construction_checked", "k_batch_smaller_than_path", "two_systems", "two_paths", "unsorted_band_selection"]
REAL = ["evaluate_k / evaluate_k_path", "calculators.tabulate (Tabulator, TabulatorAll, module-global named quantities)",
        "run_grid.run / process on a Path", "Path.from_nodes / get_K_list / get_refined / getKline", "KpointBZpath", "Data_K_R (k-list and FFT)",
        "TABresult.__add__/self_to_path/get_data"]
STUB = ["ray (SimRay) for parallel path evaluation", "stub user tabulators with unique payload (some calls)"]
ASSUMPTIONS = [
    "reference = the same Tabulator classes, freshly constructed with the documented parameters, on a one-point Data_K",
    "equality: |a-b| <= 1e-8 * max|reference| + 1e-10 (the k-list Fourier sum and the FFT path differ by rounding only)",
]

NAMED = {
    "energy": lambda: T.Energy(),
    "band_gradients": lambda: T.Velocity(kwargs_formula={"external_terms": False}),
    "berry_curvature": lambda: T.BerryCurvature(),
    "berry_curvature_internal_terms": lambda: T.BerryCurvature(kwargs_formula={"external_terms": False}),
    "berry_curvature_external_terms": lambda: T.BerryCurvature(kwargs_formula={"internal_terms": False}),
    "spin": lambda: T.Spin(),
}
QNAMES = list(NAMED)


def reference(system, kpts, names):
    with zoo.quiet():
        grid1 = wb.Grid(system=system, NK=1, NKFFT=1, use_symmetry=False)
    cls = get_data_k_class_from_system(system)
    out = {n: [] for n in names}
    for k in kpts:
        dk = cls(system, grid=grid1, dK=np.array(k, dtype=float), fftlib="numpy")
        for n in names:
            out[n].append(NAMED[n]()(dk).data[0])
    return {n: np.array(v) for n, v in out.items()}


def draw_path(dec, system):
    nseg = 1 + dec("path/nseg", 3)
    nodes, labels = [], []
    for i in range(nseg + 1):
        if i > 0 and i < nseg and dec.chance(f"path/break/{i}", 1, 4):
            nodes.append([round(0.125 * dec(f"path/node/{i}/b{j}", 9) - 0.25, 4) for j in range(3)])
            labels.append(f"B{i}")
            nodes.append(None)
        nodes.append([round(0.125 * dec(f"path/node/{i}/{j}", 11) - 0.25, 4) for j in range(3)])
        labels.append(f"P{i}")
    if dec.chance("path/zoom", 1, 4):         # a zoom-in segment: distinct points much closer than any matching tolerance
        last = nodes[-1]
        step_ = 1e-6 * (1 + dec("path/zoom_step", 4))
        nodes.append([round(last[0] + 7 * step_, 9), round(last[1] - 5 * step_, 9), round(last[2] + 3 * step_, 9)])
        labels.append("Z")
    if dec.chance("path/closed", 1, 5):       # revisit the first point
        nodes.append(list(nodes[0]))
        labels.append("P0'")
    real = [n for n in nodes if n is not None]
    # no zero-length segments
    clean, clab = [], []
    li = 0
    for n in nodes:
        if n is None:
            if clean and clean[-1] is not None:
                clean.append(None)
            continue
        if clean and clean[-1] is not None and np.allclose(clean[-1], n):
            li += 1
            continue
        clean.append(n)
        clab.append(labels[li])
        li += 1
    while clean and clean[-1] is None:
        clean.pop()
    if len([n for n in clean if n is not None]) < 2 or clean[0] is None:
        clean = [[0.0, 0.0, 0.0], [0.5, 0.25, 0.125]]
        clab = ["G", "X"]
    nk = 2 + dec("path/nk", 6)
    with zoo.quiet():
        path = wb.Path.from_nodes(system, nodes=clean, labels=clab, nk=nk)
    return path, clean, clab, nk


def check_path_construction(path, nodes, labels, nk):
    """by-product: nodes in order with labels, uniform sampling, breaks, getKline, get_refined"""
    K = path.K_list
    segs = []
    pos = 0
    real_nodes = []
    for a, b in zip(nodes, nodes[1:]):
        if a is not None and b is not None:
            segs.append((pos, np.array(a, float), np.array(b, float)))
            pos += nk - 1
        elif a is not None and b is None:
            pos += 1
    for start, a, b in segs:
        want = a[None, :] + np.linspace(0, 1, nk - 1, endpoint=False)[:, None] * (b - a)[None, :]
        if start + nk - 1 > len(K) or np.max(np.abs(K[start:start + nk - 1] - want)) > 1e-12:
            return ("path_sampling", f"segment starting at point {start} is not sampled uniformly from {a} to {b}")
    lab_nodes = [n for n in nodes if n is not None]
    if len(path.labels) != len(lab_nodes):
        return ("path_labels", f"{len(path.labels)} labels for {len(lab_nodes)} nodes")
    for (i, lab), n, l in zip(sorted(path.labels.items()), lab_nodes, labels):
        if lab != l or np.max(np.abs(K[i] - np.array(n, float))) > 1e-12:
            return ("path_labels", f"label {lab!r} at point {i} ({K[i]}) does not mark node {l!r} {n}")
    kl = path.getKline()
    if np.any(np.diff(kl) < -1e-14):
        return ("path_kline", "path coordinate decreases")
    for i in path.breaks:
        if abs(kl[i + 1] - kl[i]) > 1e-14:
            return ("path_kline", "path coordinate jumps across a break")
    fac = 3
    ref = path.get_refined(factor=fac)
    # every original point is kept, in order; labels move with their points
    j = 0
    pos_of = {}
    for i, k in enumerate(K):
        while j < len(ref.K_list) and np.max(np.abs(ref.K_list[j] - k)) > 1e-12:
            j += 1
        if j >= len(ref.K_list):
            return ("path_refined", f"original point {i} is missing from the refined path")
        pos_of[i] = j
        j += 1
    for i, lab in path.labels.items():
        if ref.labels.get(pos_of[i]) != lab:
            return ("path_refined", f"label {lab!r} is not at the refined position of point {i}")
    return None


def simulate(dec, rec, tier="quick"):
    with Scratch("c29") as scr:
        return _simulate(dec, rec, tier, scr)


def _simulate(dec, rec, tier, scr):
    import os
    thorough = tier == "thorough"
    num_wann = 2 + dec("sys/num_wann", 3)
    system = zoo.make_random_system(1 + dec("sys/seed", 500), num_wann=num_wann, nRvec=6 + dec("sys/nR", 6), max_R=2,
                                    berry=True, spin=True)
    # a second system of the same sizes (num_wann, number of R-vectors) but other R-vectors and matrices: calls of the
    # history may address either - whatever one call leaves behind in the process must not leak into a call on the other
    two = bool(dec.chance("sys/two", 1, 2))
    systems = [system]
    if two:
        systems.append(zoo.make_random_system(501 + dec("sys/seedB", 500), num_wann=num_wann, nRvec=6 + dec("sys/nR", 6), max_R=2,
                                              berry=True, spin=True))
        rec.fire("two_systems")
    path, nodes, labels, nk = draw_path(dec, system)
    if path.breaks:
        rec.fire("path_with_break")
    # a second path over the same points (refined by 2): calls may use either, so that nothing remembered from one path
    # (or one batching) can be served to the other
    paths = [path]
    if dec.chance("path/second", 1, 2):
        paths.append(path.get_refined(factor=2))
        rec.fire("two_paths")
    Ks = [np.array(p.K_list) for p in paths]
    K = Ks[0]
    sample = dict(num_wann=num_wann, nodes=nodes, nk=nk, npoints=len(K), breaks=list(path.breaks), history=[])
    base = dict(sample=sample, counters={}, real=REAL, stub=STUB, vtime=0.0)
    hist = [num_wann, nodes, nk]

    def finish(viol=None):
        sig = hashlib.blake2b(repr(hist).encode(), digest_size=8).hexdigest()
        out = dict(base, sig=sig, nontrivial=len(sample["history"]) >= 2, verdict="ok")
        if viol:
            out.update(verdict="violation", kind=viol[0], message=viol[1])
        return out

    v = check_path_construction(path, nodes, labels, nk)
    rec.fire("path_construction_checked")
    if v:
        return finish(v)
    # ---------------------------------------------------------------- reference first
    refs = [[reference(sy, Kp, QNAMES) for sy in systems] for Kp in Ks]          # refs[path][system]
    scales = [{q: max(1e-12, float(np.max(np.abs(a)))) for q, a in r.items()} for r in refs[0]]

    clock = VClock()
    ray = SimRay(dec, rec, clock)
    nops = 2 + dec("hist/n", 4)
    band_selected_before = False
    with Harness(dec, rec, clock=clock, ray=ray, snapshot_klist=False):
        for step in range(nops):
            kind = ["path", "point"][dec.pick(f"hist/{step}/kind", [3, 2])]
            isys = dec(f"hist/{step}/sys", len(systems))
            ip = dec(f"hist/{step}/path", len(paths))
            path, K = paths[ip], Ks[ip]
            system, ref, scale = systems[isys], refs[ip][isys], scales[isys]
            which = (f"system {'AB'[isys]}, " if two else "") + (f"path {ip} ({len(K)} points), " if len(paths) > 1 else "")
            nq = 1 + dec(f"hist/{step}/nq", 3)
            qs = sorted({QNAMES[dec(f"hist/{step}/q/{i}", len(QNAMES))] for i in range(nq)})
            sel = dec.pick(f"hist/{step}/bands", [3, 2, 1, 1, 1])
            if sel == 0:
                ibands = None
            elif sel == 1:
                ibands = sorted({dec(f"hist/{step}/ib/{i}", num_wann) for i in range(1 + dec(f"hist/{step}/nb", num_wann))})
            elif sel == 2:
                ibands = [num_wann - 1]
            elif sel == 3:      # unsorted, non-contiguous: the values must come back in the order asked for
                ibands = [num_wann - 1, 0] if num_wann > 2 else [1, 0]
                rec.fire("unsorted_band_selection")
            else:               # a numpy array instead of a list
                ibands = np.array(sorted({dec(f"hist/{step}/ib/{i}", num_wann) for i in range(1 + dec(f"hist/{step}/nb", num_wann))}))
            want_b = list(range(num_wann)) if ibands is None else [int(b) for b in ibands]
            ibands_desc = None if ibands is None else (f"array({want_b})" if isinstance(ibands, np.ndarray) else want_b)
            if band_selected_before:
                rec.fire("call_after_band_selection")
            if kind == "path":
                parallel = bool(dec.chance(f"hist/{step}/parallel", 1, 3))
                k_batch = 1 + dec(f"hist/{step}/k_batch", 12)
                user_tab = bool(dec.chance(f"hist/{step}/usertab", 1, 4))
                tabs = None
                stub = None
                if user_tab:
                    stub = zoo.StubTab(100 + step, nband=num_wann, rank=1)
                    tabs = {"user": stub}
                    rec.fire("user_tabulator_call")
                desc = (f"call {step}: evaluate_k_path({which}quantities={qs}, ibands={ibands_desc}, parallel={parallel}, k_batch={k_batch}"
                        f"{', tabulators={user: stub}' if user_tab else ''})")
                sample["history"].append(dict(call="evaluate_k_path", system="AB"[isys], quantities=qs, ibands=ibands_desc, parallel=parallel,
                                              k_batch=k_batch, user_tabulator=user_tab))
                hist.append(("path", isys, ip, tuple(qs), tuple(want_b), parallel, k_batch, user_tab))
                rec.fire("path_calls")
                if parallel:
                    rec.fire("parallel_path_call")
                if k_batch < len(K):
                    rec.fire("k_batch_smaller_than_path")
                if ibands is not None:
                    rec.fire("band_selection_call")
                try:
                    with zoo.quiet():
                        res = wb.evaluate_k_path(system, path=path, quantities=qs, ibands=ibands, tabulators=tabs,
                                                 parallel=parallel, k_batch=k_batch,
                                                 fout_name=os.path.join(scr.path, f"out{step}"))
                except SimLivelock as e:
                    return dict(finish(), verdict="inconclusive", kind="livelock", message=str(e))
                except Exception as e:
                    return finish(("history_raises", f"{desc} raised {type(e).__name__}: {e} - the same call is valid in a "
                                                     f"fresh process; earlier calls: {sample['history'][:-1]}"))
                if res.kpoints.shape != K.shape or np.max(np.abs(res.kpoints - K)) > 1e-12:
                    return finish(("path_kpoints", f"{desc}: returned k-points are not path.K_list"))
                for q in qs:
                    got = np.asarray(res.get_data(quantity=q))
                    want = ref[q][:, want_b]
                    rec.fire("path_points_checked", len(K))
                    if got.shape != want.shape:
                        return finish(("path_shape", f"{desc}: '{q}' has shape {got.shape}, expected {want.shape}"))
                    err = np.abs(got - want).reshape(len(K), -1).max(axis=1)
                    if np.max(err) > 1e-8 * scale[q] + 1e-10:
                        bad = int(np.argmax(err))
                        return finish(("path_value", f"{desc}: '{q}' at path point {bad} (k={K[bad].tolist()}) differs from the "
                                                     f"value evaluated at that point alone by {err[bad]:.3e} (scale {scale[q]:.3e})"))
                if user_tab:
                    got = np.asarray(res.get_data(quantity="user"))
                    want = stub.value_at(K)[:, want_b]
                    if got.shape != want.shape or np.max(np.abs(got - want)) > 1e-10:
                        return finish(("path_value", f"{desc}: the user tabulator's values are not in path order with each point's own value"))
            else:
                ik = dec(f"hist/{step}/ik", len(K))
                k = K[ik]
                if ibands is not None and len(want_b) == 1 and dec.chance(f"hist/{step}/int_band", 1, 2):
                    ibands = int(want_b[0])          # a single int is a documented input form of evaluate_k
                    ibands_desc = ibands
                desc = f"call {step}: evaluate_k({which}k=path point {ik} {k.tolist()}, quantities={qs}, iband={ibands_desc})"
                sample["history"].append(dict(call="evaluate_k", system="AB"[isys], point=ik, quantities=qs, iband=ibands_desc))
                hist.append(("point", isys, ip, ik, tuple(qs), tuple(want_b)))
                rec.fire("point_calls")
                try:
                    with zoo.quiet():
                        res = wb.evaluate_k(system, k=tuple(k), quantities=qs, iband=ibands, return_single_as_dict=True)
                except Exception as e:
                    return finish(("history_raises", f"{desc} raised {type(e).__name__}: {e} - the same call is valid in a "
                                                     f"fresh process; earlier calls: {sample['history'][:-1]}"))
                for q in qs:
                    got = np.asarray(res[q])
                    want = ref[q][ik][want_b]
                    if got.shape != want.shape or np.max(np.abs(got - want)) > 1e-8 * scale[q] + 1e-10:
                        return finish(("point_value", f"{desc}: '{q}' differs from the value computed before the history "
                                                      f"(shape {got.shape} vs {want.shape})"))
            if ibands is not None and kind == "path":
                band_selected_before = True
    base["vtime"] = clock.t
    return finish()
