"""C11 - restarting an interrupted refinement run reproduces the uninterrupted run.

One simulated run = one history:
  * a reference run(T) in its own directory (uninterrupted);
  * an interrupted sequence of 2-4 segments covering the same T iterations.  A non-final segment ends
    either because it was asked for fewer iterations and returned, or by **SimCrash** (process kill)
    right after iteration j was saved (iteration boundary); every later segment is
    run(restart=True, adpt_num_iter=remaining).  Storage mode (allow_restart <-> dump_results),
    serial/parallel, Klist_part and worker count may change between segments; every directory listing
    goes through the run's listing policy (sorted / reversed / hash permutation / shuffle per call).
  Oracle (the property as stated): every iteration reported by any segment - saved file data, and the
  segment's return value - equals the reference run's data of that iteration.

Extended crash points (separate run class "anyop"): the first segment is killed before an arbitrary
intercepted operation (file open/write/close with torn-write cuts, task completion, process()
entry/exit, write_factors, savedata), then restarted.  Relaxed oracle: the restart may raise; if it
returns, every iteration it reports must equal the reference.

Thorough tier, class "sweep": for the sampled history *every* intercepted operation of the crashing
segment (first segment or a restart segment) is used as crash site in turn, each with the torn-write
cuts - every crash site of that history, not a sample (fault enumeration).
"""
import glob as _glob
import hashlib
import os
import numpy as np

from .. import cases, zoo
from ..simrun import Harness, SimRay, VClock, SimLivelock, SimCrash, SimDisk, close, weighted_sum, energy_arrays
from ..simdisk import Scratch

PROPERTY = "C11"
LEVEL = "exploration"      # the thorough tier additionally enumerates every crash site of each sampled small history
BUDGET = dict(quick=45, thorough=900)
MAX_RUNS = dict(quick=6000, thorough=10 ** 7)
RULE = ("each run draws a configuration (lattice/point group, grid, mesh, adpt_fac, steering profile), a total iteration "
        "count T, a split of T into 2-4 segments, how each segment ends (returns / killed at the iteration boundary), "
        "storage mode, Klist_part and serial-or-simulated-ray per segment, and a directory listing policy; it is compared "
        "iteration by iteration with the uninterrupted run. Class 'anyop' kills the first segment before an arbitrary "
        "intercepted operation (with torn-write cut); class 'sweep' (thorough) enumerates every operation of the crashing "
        "segment as crash site. distinct = hash of (configuration, T, split, ending kinds, modes, listing policy, crash "
        "site); non-trivial = at least one restart happened")
PROBES = ["restart_segments", "boundary_crash", "return_stop", "mode_switch", "listing_permuted", "listing_last_not_max",
          "anyop_crash_fired", "restart_raised", "restart_after_midcrash_ok", "torn_partial", "torn_buffer_lost",
          "zero_iteration_restart", "parallel_segment", "tetra_grid", "extra_points_zero_weight", "absorb_old_new"]
PROBES_THOROUGH = ["sweep_sites", "sweep_complete"]
REAL = ["run_grid.run (restart branch), read_factors/write_factors", "run_grid.process", "Grid/GridTetra",
        "Kpoint classes (pickle round trip, dump/get results)", "exclude_equiv_points", "ResultDict/EnergyResult"]
STUB = ["Data_K (StubData) and calculators with known payload", "ray (SimRay) in parallel segments",
        "disk completion, crash and listing order (SimDisk over real tmpfs files)", "wall clock",
        "process restart = fresh system/grid/calculator objects in the same interpreter (no fork per segment: see DESIGN §2.5)"]
ASSUMPTIONS = [
    "process-kill model: bytes handed to the OS survive, a decision-chosen part of the user-space buffer survives, memory is lost; "
    "power loss (un-synced page cache) is not modelled",
    "a restarted segment gets fresh Python objects but runs in the same interpreter as the crashed one",
    "equality means |a-b| <= 1e-10 * natural scale of the sum + 1e-13",
    "for crashes that are not at an iteration boundary the restart may raise (relaxed oracle)",
]


class _Seg:
    pass


def _run_segment(dec, rec, cfg, scr, k, *, restart, adpt_num_iter, mode, parallel, Klist_part, listing,
                 kdir, crash_after_iter=None, crash_at_op=None, crash_cut=0):
    """one call of run(); returns _Seg with iterations (list of dict), returned (dict key->array) or None, crashed, exc, disk"""
    b = cases.build(cfg)
    clock = VClock()
    ray = SimRay(dec, rec, clock, prefix=f"ray{k}") if parallel else None
    disk = SimDisk(dec, rec, prefix=f"fs{k}", listing=listing)
    disk.crash_cut = crash_cut
    if crash_at_op is not None:
        disk.crash_at = crash_at_op
    fout = os.path.join(scr.path, f"out_seg{k}")
    kwargs = dict(b["kwargs"])
    kwargs.update(parallel=parallel, fout_name=fout, file_Klist_path=kdir, Klist_part=Klist_part,
                  adpt_num_iter=adpt_num_iter, restart=restart)
    if mode == "dump":
        kwargs["dump_results"] = True
    else:
        kwargs["allow_restart"] = True

    def on_iteration(h, it):
        if crash_after_iter is not None and it["i_iter"] == crash_after_iter:
            h.disk.crash_at = h.disk.nops + 1       # the very next intercepted op is 'savedata_exit'

    def count_absorb(orig, h_):
        def absorb(self_, other):
            if other is not None and self_.was_evaluated_flag and not other.was_evaluated_flag:
                rec.fire("absorb_old_new")
            return orig(self_, other)
        return absorb

    from wannierberri.grid import Kpoint as _kp
    h = Harness(dec, rec, clock=clock, ray=ray, disk=disk, on_iteration=on_iteration,
                extra_patches=[(_kp.KpointBZparallel, "absorb", count_absorb)])
    s = _Seg()
    s.crashed, s.exc, s.returned, s.livelock = False, None, None, None
    with h:
        try:
            res = h.run(b["system"], b["grid"], b["calculators"], **kwargs)
            s.returned = energy_arrays(res)
        except SimCrash:
            s.crashed = True
        except SimLivelock as e:
            s.livelock = str(e)
        except Exception as e:
            s.exc = e
    s.obs, s.disk, s.fout, s.b, s.vtime = h.obs, disk, fout, b, clock.t
    s.iterations = h.obs.iterations
    return s


def _iters_on_disk(kdir):
    out = []
    for f in _glob.glob(os.path.join(kdir, "factors_iter-*.npy")):
        try:
            out.append(int(os.path.basename(f).split("-")[-1].split(".")[0]))
        except ValueError:
            pass
    return sorted(out)


def simulate(dec, rec, tier="quick"):
    with Scratch("c11") as scr:
        return _simulate(dec, rec, tier, scr)


def _simulate(dec, rec, tier, scr):
    thorough = tier == "thorough"
    cls = ["boundary", "anyop", "sweep"][dec.pick("cfg/class", [5, 2, 2 if thorough else 0])]
    small = cls == "sweep"
    cfg = cases.draw_case(dec, kinds=("stub_int",), kind_w=(1,), max_iter=1, big=False,
                          NK_choices=(2, 1) if small else (2, 1, 3, 4), tetra_ok=not small)
    if small:
        # sweeps enumerate every operation of the crashing segment (x torn-write cuts): keep the history small
        cfg["calc"] = cfg["calc"][:1]
        cfg["ncalc"] = 1
        cfg["adpt_fac"] = 1
        cfg["adpt_mesh"] = 2
    if cls != "boundary":
        # After a kill in the middle of an iteration the restarted K-list may hold extra (zero-weight) points, i.e.
        # a different list order than the uninterrupted run.  That is harmless unless a refinement criterion ties
        # K-points, because ties are broken by list position.  The relaxed oracle therefore needs criteria that are
        # never identically zero: >= 2 energies (norm of the derivative), scalar and even payload (an odd or vector
        # payload can be symmetrised to exactly zero).
        for c in cfg["calc"]:
            c["nE"] = max(c["nE"], 2)
            c["rank"] = 0
            c["odd"] = False
    Tmax = 2 if small else (8 if thorough else 5)
    T = 1 + dec("cfg/T", Tmax)
    if not thorough:
        # keep a quick-tier history cheap: a fine mesh multiplies the K-points per refined cell by up to 64, and every
        # calculator adds three refinement criteria
        mesh = cfg["adpt_mesh"]
        fine = (int(np.prod(mesh)) if isinstance(mesh, list) else mesh ** int(sum(cfg["sym"]["periodic"]))) >= 27
        if fine:
            cfg["adpt_fac"] = 1
            cfg["calc"] = cfg["calc"][:2]
            cfg["ncalc"] = len(cfg["calc"])
            T = min(T, 3)
    # "long" histories: iteration numbers with two digits (>= 10) exist before a restart, so that the order of the
    # per-iteration weight files (numeric vs. lexicographic, zero-padded or not) matters.  Kept cheap: one refined cell
    # per iteration, mesh 2, one calculator.
    long_hist = cls == "boundary" and dec.chance("cfg/long", 1, 6)
    if long_hist:
        cfg["calc"] = cfg["calc"][:1]
        cfg["ncalc"] = 1
        cfg["adpt_fac"] = 1
        cfg["adpt_mesh"] = 2
        T = 11 + dec("cfg/Tlong", 4)
    cfg["adpt_num_iter"] = T
    listing = dec.pick("fs/listing", [2, 2, 3, 2])
    modes = ["restartable", "dump"]

    # ------------------------------------------------------------------ plan of the interrupted sequence
    nseg = 2 + dec.pick("cfg/nseg", [4, 2, 1])
    plan = []
    done = None
    for k in range(nseg):
        last = (k == nseg - 1)
        lo = 0 if done is None else done
        if last:
            stop = T
        else:
            # stop after iteration `stop` (>= lo; == lo is a zero-iteration restart, rarely)
            span = T - 1 - lo
            if span < 0:
                break
            if long_hist and done is None and dec.chance("cfg/longstop", 1, 2):
                # bias the first stop into the two-digit iterations
                stop = 10 + dec("cfg/stoplong", T - 10)
            else:
                stop = lo + (dec(f"cfg/stop/{k}", span + 1) if done is None else
                             (0 if (span == 0 or dec.chance(f"cfg/zero/{k}", 1, 10)) else 1 + dec(f"cfg/stop/{k}", span)))
        how = "return" if last else ["crash", "return"][dec(f"cfg/how/{k}", 2)]
        plan.append(dict(k=k, restart=done is not None, start=done, stop=stop, how=how,
                         mode=modes[dec(f"cfg/mode/{k}", 2)], parallel=bool(dec.chance(f"cfg/parallel/{k}", 1, 4)),
                         Klist_part=1 + dec(f"cfg/Klist_part/{k}", 10)))
        done = stop
        if stop >= T:
            break
    if plan[-1]["stop"] < T:
        plan.append(dict(k=len(plan), restart=True, start=plan[-1]["stop"], stop=T, how="return",
                         mode=modes[dec("cfg/mode/last", 2)], parallel=False, Klist_part=3))

    # ------------------------------------------------------------------ reference run
    ref = _run_segment(dec, rec, cfg, scr, "ref", restart=False, adpt_num_iter=T, mode=plan[0]["mode"], parallel=False,
                       Klist_part=plan[0]["Klist_part"], listing=listing, kdir=os.path.join(scr.path, "kl_ref"))
    counters = {}
    if cfg.get("grid_type") == "GridTetra":
        counters["tetra_grid"] = 1
    if any(q["restart"] and q["start"] is not None and q["start"] >= 10 for q in plan):
        counters["restart_after_two_digit_iteration"] = 1
    sample = dict(config=cases.brief(cfg), T=T, cls=cls, listing=SimDisk.LISTING[listing],
                  plan=[{k: v for k, v in p.items()} for p in plan])
    base = dict(sample=sample, counters=counters, real=REAL, stub=STUB, vtime=ref.vtime)
    if ref.exc is not None or ref.crashed or ref.livelock or len(ref.iterations) != T + 1:
        return dict(base, verdict="inconclusive", kind="reference_failed", sig=None, nontrivial=False,
                    message=f"reference run failed: {ref.exc or ref.livelock} ({len(ref.iterations)} iterations)")
    refdata = {it["i_iter"]: it for it in ref.iterations}
    if cls != "boundary":
        # soundness guard of the relaxed oracle (DESIGN 2.7): if two K-points of the reference run tie in a refinement
        # criterion, which of them is refined depends on the list order, and the order legitimately differs after a
        # mid-iteration kill (extra zero-weight points): such a history cannot be compared -> inconclusive
        gaps = [it.get("selection_gap") for it in ref.iterations[:-1]]
        if any(g is not None and g < 1e-9 for g in gaps):
            rec.fire("selection_tie_guard")
            return dict(base, verdict="inconclusive", kind="selection_tie", sig=None, nontrivial=False,
                        message="two K-points of the reference run tie in a refinement criterion")

    def scale_of(i, key):
        return weighted_sum(ref.obs, refdata[i]["klist"], key)[1]

    def compare(seg, label, relaxed):
        """every iteration the segment reports == reference; returns (kind, message) or None"""
        for it in seg.iterations:
            i = it["i_iter"]
            if i not in refdata:
                return ("extra_iteration", f"{label} reported iteration {i}, the uninterrupted run has only 0..{T}")
            for key, want in refdata[i]["data"].items():
                got = it["data"].get(key)
                ok, err = close(got, want, scale_of(i, key)) if got is not None else (False, float("inf"))
                if not ok:
                    return ("iteration_differs", f"{label}: iteration {i} result '{key}' differs from the uninterrupted "
                                                 f"run by {err:.3e} (scale {scale_of(i, key):.3e})")
                fn = f"{seg.fout}-{key}_iter-{i:04d}.npz"
                if os.path.exists(fn):
                    with np.load(fn, allow_pickle=True) as z:
                        data = z["data"]
                    ok, err = close(data, want, scale_of(i, key))
                    if not ok:
                        return ("file_differs", f"{label}: saved {os.path.basename(fn)} differs from the uninterrupted run by {err:.3e}")
        return None

    def compare_returned(seg, label, expected_iter):
        if seg.returned is None:
            return None
        if expected_iter not in refdata:
            return ("extra_iteration", f"{label} returned after iteration {expected_iter} > T={T}")
        for key, want in refdata[expected_iter]["data"].items():
            got = seg.returned.get(key)
            ok, err = close(got, want, scale_of(expected_iter, key)) if got is not None else (False, float("inf"))
            if not ok:
                return ("returned_differs", f"{label}: returned result '{key}' differs from iteration {expected_iter} of "
                                            f"the uninterrupted run by {err:.3e} (scale {scale_of(expected_iter, key):.3e})")
        return None

    kdir = os.path.join(scr.path, "kl")
    sigparts = [repr(sorted(cases.brief(cfg).items(), key=str)), str(T), cls, str(listing),
                repr([(p["start"], p["stop"], p["how"], p["mode"], p["parallel"]) for p in plan])]

    def finish(verdict="ok", kind=None, msg=None, extra_sig="", extra_dec=None, nontrivial=True):
        sig = hashlib.blake2b(("|".join(sigparts) + extra_sig).encode(), digest_size=8).hexdigest()
        out = dict(base, verdict=verdict, sig=sig, nontrivial=nontrivial)
        if kind:
            out.update(kind=kind, message=msg)
        if extra_dec:
            out["decisions_extra"] = extra_dec
        return out

    # ------------------------------------------------------------------ class boundary: the property as stated
    if cls == "boundary":
        nrestarts = 0
        prev_mode = None
        for p in plan:
            if p["restart"]:
                nrestarts += 1
                rec.fire("restart_segments")
                if p["stop"] == p["start"]:
                    rec.fire("zero_iteration_restart")
            if prev_mode is not None and prev_mode != p["mode"]:
                rec.fire("mode_switch")
            prev_mode = p["mode"]
            if p["parallel"]:
                rec.fire("parallel_segment")
            start = p["start"] or 0
            if p["how"] == "crash":
                ask = T - start
                crash_after = p["stop"]
                rec.fire("boundary_crash")
            else:
                ask = p["stop"] - start
                crash_after = None
                if p["stop"] < T:
                    rec.fire("return_stop")
            if p["how"] == "crash" and p["restart"] and p["stop"] == p["start"]:
                # a restart never re-saves its starting iteration, so there is no boundary to crash at: just return
                ask, crash_after = 0, None
            seg = _run_segment(dec, rec, cfg, scr, p["k"], restart=p["restart"], adpt_num_iter=ask, mode=p["mode"],
                               parallel=p["parallel"], Klist_part=p["Klist_part"], listing=listing, kdir=kdir,
                               crash_after_iter=crash_after)
            base["vtime"] += seg.vtime
            label = f"segment {p['k']} ({'restart from ' + str(p['start']) if p['restart'] else 'fresh'}, {p['mode']}, ends by {p['how']} after iteration {p['stop']})"
            if seg.livelock:
                return finish("inconclusive", "livelock", seg.livelock)
            if seg.exc is not None:
                return finish("violation", "restart_raises" if p["restart"] else "run_raises",
                              f"{label} raised {type(seg.exc).__name__}: {seg.exc}")
            if crash_after is not None and not seg.crashed:
                return finish("violation", "no_such_iteration", f"{label} never saved iteration {crash_after}")
            r = compare(seg, label, relaxed=False)
            if r:
                return finish("violation", *r)
            if not seg.crashed:
                r = compare_returned(seg, label, p["stop"])
                if r:
                    return finish("violation", *r)
            want_iters = list(range(start + 1 if p["restart"] else 0, p["stop"] + 1))
            got_iters = [it["i_iter"] for it in seg.iterations]
            if got_iters != want_iters:
                return finish("violation", "iterations", f"{label} saved iterations {got_iters}, expected {want_iters}")
        return finish(nontrivial=nrestarts > 0)

    # ------------------------------------------------------------------ classes anyop / sweep: extended crash points
    # which segment crashes: the first one (fresh run asked for T) or - sweep only - the first restart segment
    p0 = plan[0]
    crash_seg = 0
    if cls == "sweep" and dec.chance("sweep/in_restart", 1, 2) and len(plan) >= 2:
        crash_seg = 1

    def prefix_segments(upto):
        """run the segments before the crashing one faithfully (they end by returning); returns the iteration done"""
        done_ = None
        for p in plan[:upto]:
            start = p["start"] or 0
            seg = _run_segment(dec, rec, cfg, scr, p["k"], restart=p["restart"], adpt_num_iter=p["stop"] - start,
                               mode=p["mode"], parallel=False, Klist_part=p["Klist_part"], listing=listing, kdir=kdir)
            if seg.exc is not None or seg.livelock:
                return None, seg
            done_ = p["stop"]
        return done_, None

    def one_crash(c, cut, count_only=False):
        """history: [prefix segments], crashing segment killed before its op c, restart for the remaining iterations.
        returns (violation tuple | None, info)"""
        import shutil
        shutil.rmtree(kdir, ignore_errors=True)
        done_, bad = prefix_segments(crash_seg)
        if bad is not None:
            return ("run_raises", f"segment before the crash raised {bad.exc or bad.livelock}"), {}
        p = plan[crash_seg]
        start = done_ or 0
        seg = _run_segment(dec, rec, cfg, scr, f"{p['k']}c", restart=crash_seg > 0, adpt_num_iter=T - start, mode=p["mode"],
                           parallel=p["parallel"] and not count_only, Klist_part=p["Klist_part"], listing=listing, kdir=kdir,
                           crash_at_op=None if count_only else c, crash_cut=cut)
        if count_only:
            return None, dict(nops=seg.disk.nops, oplog=seg.disk.oplog)
        label = f"crashing segment {p['k']} (killed before op {c}: {seg.disk.oplog[-1][1:] if seg.disk.oplog else ''}, cut {cut})"
        if seg.exc is not None:
            return ("run_raises", f"{label} raised {type(seg.exc).__name__}: {seg.exc}"), {}
        r = compare(seg, label, relaxed=True)
        if r:
            return r, {}
        if not seg.crashed:
            r = compare_returned(seg, label, T)
            return r, dict(fired=False)
        rec.fire("anyop_crash_fired")
        on_disk = _iters_on_disk(kdir)
        if not on_disk:
            return None, dict(fired=True, restarted=False)
        done2 = max(on_disk)
        remaining = T - done2
        if remaining < 0:
            return ("extra_iteration", f"{label}: factors of iteration {done2} > T={T} on disk"), {}
        q = plan[min(crash_seg + 1, len(plan) - 1)]
        seg2 = _run_segment(dec, rec, cfg, scr, f"{p['k']}r", restart=True, adpt_num_iter=remaining, mode=q["mode"],
                            parallel=q["parallel"], Klist_part=q["Klist_part"], listing=listing, kdir=kdir)
        label2 = f"restart after {label} (iterations on disk {on_disk}, asked for {remaining} more)"
        if seg2.livelock:
            return None, dict(fired=True, restarted=False)
        if seg2.exc is not None:
            rec.fire("restart_raised")
            # allowed by the relaxed oracle - except when the kill happened exactly at an iteration boundary
            kinds = [o[1] for o in seg.disk.oplog[-1:]]
            if kinds == ["savedata_exit"]:
                return ("restart_raises", f"{label2} raised {type(seg2.exc).__name__}: {seg2.exc}"), {}
            return None, dict(fired=True, restarted=False)
        r = compare(seg2, label2, relaxed=True) or compare_returned(seg2, label2, T)
        if r:
            return r, {}
        nk_file = len(seg2.obs.K_list) if seg2.obs.K_list is not None else 0
        if seg2.obs.K_list is not None and any(K.factor == 0 and K.refinement_level == max(kk.refinement_level for kk in seg2.obs.K_list)
                                               for K in seg2.obs.K_list):
            rec.fire("extra_points_zero_weight")
        rec.fire("restart_after_midcrash_ok")
        return None, dict(fired=True, restarted=True)

    if cls == "anyop":
        _, info = one_crash(None, 0, count_only=True)
        N = info["nops"]
        c = 1 + dec("crash/op", max(N, 1))
        cut = dec("crash/cut", 4)
        r, info2 = one_crash(c, cut)
        if r:
            return finish("violation", r[0], r[1], extra_sig=f"c{c}/{cut}")
        return finish(extra_sig=f"c{c}/{cut}", nontrivial=bool(info2.get("fired")))

    # sweep: every operation of the crashing segment, each with the torn-write cuts where a file is open
    _, info = one_crash(None, 0, count_only=True)
    N = info["nops"]
    oplog = info["oplog"]
    only = dec.forced("sweep/only")
    only_cut = dec.forced("sweep/cut")
    sites = 0
    import time as _time
    t_sweep = _time.time()
    for c in ([only] if only else range(1, N + 1)):
        if _time.time() - t_sweep > 150:     # wall guard: an unfinished sweep is reported as such, never as exhaustive
            base["sample"]["sweep"] = dict(crashing_segment=crash_seg, operations=N, sites=sites, complete=False)
            rec.fire("sweep_sites", sites)
            rec.fire("sweep_incomplete")
            return finish(extra_sig=f"sweep{crash_seg}/{N}/partial{c}")
        kind = oplog[c - 1][1] if c - 1 < len(oplog) else "?"
        cuts = [0, 1, 2, 3] if kind in ("write", "close") else [0]
        if only:
            cuts = [only_cut]
        for cut in cuts:
            sites += 1
            r, _ = one_crash(c, cut)
            if r:
                return finish("violation", r[0], r[1] + f" [sweep site {c}/{N} ({kind}), cut {cut}]", extra_sig=f"s{c}/{cut}",
                              extra_dec={"sweep/only": c, "sweep/cut": cut})
    rec.fire("sweep_sites", sites)
    base["sample"]["sweep"] = dict(crashing_segment=crash_seg, operations=N, sites=sites, complete=True)
    rec.fire("sweep_complete")
    return finish(extra_sig=f"sweep{crash_seg}/{N}")
