"""C18 - system files round-trip: the `.npz` directory part, by simulation.

A System_R is saved as a directory of ~10 files written one by one, discovered by two directory
listings and loaded in listing order, into a directory that may already contain files.
One simulated run = one history over a SimDisk directory: to_npz / to_npz of another system into the
same directory (overwrite=True) / SimCrash between two files or in the middle of one (torn file)
followed - or not - by a complete re-save / from_npz; every listing goes through the run's listing
policy (sorted, reversed, hash permutation, shuffle per call).
Oracle: the loaded system gives back lattice, centres, R-vectors, periodic, num_wann, point-group
operations and every saved matrix bit-exactly (and the same band energies at seeded k, by-product).
After a crash without re-save, loading may raise, but must not return a system whose present parts
differ from what was saved.  The _tb.dat / _hr.dat text formats are strictly sequential single-file
formatting: not a simulation target, not claimed.
"""
import hashlib
import os
import numpy as np

import wannierberri as wb
from wannierberri.system import system_R as _sr

from .. import zoo
from ..simdisk import SimDisk, Scratch
from ..simray import SimCrash

PROPERTY = "C18"
LEVEL = "exploration"
BUDGET = dict(quick=35, thorough=600)
MAX_RUNS = dict(quick=20000, thorough=10 ** 8)
RULE = ("each run draws one or two random System_R (1-5 Wannier functions incl. odd, matrix sets within {Ham,AA,BB,CC,SS}, lattice "
        "and point group, periodicity, optional structure arrays), a history (save / save again / crash at a drawn file operation "
        "with torn-write cut / re-save / load) and a listing policy; distinct = hash of (systems, history, crash site, listing "
        "order actually produced); non-trivial = a permuted listing or a crash or a second save happened")
PROBES = ["loads_checked", "listing_permuted", "second_save", "crash_fired", "crash_between_files", "crash_mid_file",
          "load_after_crash_raised", "load_after_crash_returned", "resave_after_crash", "odd_num_wann", "structure_arrays",
          "pointgroup_nontrivial", "non_periodic_direction", "bands_compared", "berry_compared"]
REAL = ["System_R.to_npz / from_npz / load_npz", "PointGroup.as_dict / PointGroup(dictionary=...)", "Rvectors", "numpy npz I/O (zipfile)"]
STUB = ["directory listing order and file completion (SimDisk over real tmpfs files)"]
ASSUMPTIONS = [
    "process-kill model for the crash (OS-handed bytes survive, part of the user buffer survives)",
    "only what was saved is compared; a second save uses the same set of file names (same matrix keys) as the first",
]

MATS = ["AA", "BB", "CC", "SS"]


class _NpShim:
    """stands in for `np` inside system_R: savez / savez_compressed go through SimDisk write proxies"""

    def __init__(self, disk):
        self._disk = disk

    def __getattr__(self, n):
        return getattr(np, n)

    def _save(self, fn, file, *a, **k):
        if isinstance(file, (str, os.PathLike)):
            path = os.fspath(file)
            if not path.endswith(".npz"):
                path += ".npz"
            f = self._disk.open(path, "wb")
            try:
                return fn(f, *a, **k)
            finally:
                f.close()
        return fn(file, *a, **k)

    def savez(self, file, *a, **k):
        return self._save(np.savez, file, *a, **k)

    def savez_compressed(self, file, *a, **k):
        return self._save(np.savez_compressed, file, *a, **k)


def make_system(dec, p, sym, mats, num_wann, nR):
    seed = 1 + dec(f"{p}/seed", 1000)
    flags = dict(berry="AA" in mats, morb=("BB" in mats or "CC" in mats), spin="SS" in mats)
    s = zoo.make_random_system(seed, num_wann=num_wann, nRvec=nR, max_R=2, real_lattice=sym["real_lattice"],
                               periodic=(True, True, True), **flags)
    for key in list(s._XX_R.keys()):
        if key != "Ham" and key not in mats:
            del s._XX_R[key]
    with zoo.quiet():
        s.set_pointgroup(sym["gens"])
        how = dec(f"{p}/pg_form", 3)
        if how and len(s.pointgroup.symmetries) > 1:
            # the same group given as an explicit list of ALL its operations (as set_pointgroup_from_structure does),
            # identity first; ordered "plain operations, then their time-reversed partners" (how=1) or reversed (how=2):
            # serialisation must not depend on how the group was specified or ordered
            from wannierberri.symmetry.point_symmetry import PointGroup, PointSymmetry
            ops = sorted(s.pointgroup.symmetries,
                         key=lambda x: (bool(x.TR), bool(x.Inv), tuple(np.round(x.R, 6).ravel().tolist())), reverse=(how == 2))
            ident = [x for x in ops if (not x.TR) and (not x.Inv) and np.allclose(x.R, np.eye(3))]
            ops = ident + [x for x in ops if x not in ident]
            explicit = [PointSymmetry(x.R * (-1 if x.Inv else 1), TR=bool(x.TR)) for x in ops]
            s.set_pointgroup(pointgroup=PointGroup(generator_list=explicit, real_lattice=s.real_lattice))
    if not all(sym["periodic"]):
        # drop the R-vectors that leave the slab so that `periodic` is consistent
        keep = s.rvec.iRvec[:, 2] == 0
        if keep.sum() >= 1:
            from wannierberri.fourier.rvectors import Rvectors
            for key in list(s._XX_R.keys()):
                s._XX_R[key] = s._XX_R[key][keep]
            s.rvec = Rvectors(lattice=s.real_lattice, iRvec=s.rvec.iRvec[keep], shifts_left_red=s.wannier_centers_red)
            s.periodic = np.array(sym["periodic"])
    if dec.chance(f"{p}/structure", 1, 3):
        rs = np.random.RandomState(seed)
        nat = 1 + dec(f"{p}/nat", 3)
        s.positions = rs.random_sample((nat, 3))
        s.atom_labels = np.array([["A", "B", "C"][i % 3] for i in range(nat)])
        if dec.chance(f"{p}/magmom", 1, 2):
            s.magnetic_moments = rs.random_sample((nat, 3))
    return s


def describe(s):
    d = dict(num_wann=int(s.num_wann), real_lattice=np.array(s.real_lattice), iRvec=np.array(s.rvec.iRvec),
             periodic=np.array(s.periodic), wannier_centers_cart=np.array(s.wannier_centers_cart),
             is_phonon=bool(s.is_phonon))
    for key in ("positions", "atom_labels", "magnetic_moments"):
        if hasattr(s, key) and getattr(s, key) is not None:
            d[key] = np.array(getattr(s, key))
    d["pointgroup"] = sorted((tuple(np.round(x.R * (-1 if x.Inv else 1), 9).ravel()), bool(x.TR)) for x in s.pointgroup.symmetries)
    d["matrices"] = {k: np.array(v) for k, v in s._XX_R.items()}
    return d


def compare(saved, loaded_sys, partial=False):
    """None if the loaded system equals what was saved; with partial=True only the parts present are compared"""
    try:
        got = describe(loaded_sys)
    except Exception as e:
        if partial:
            return None      # an incomplete system that cannot even be described: nothing was returned as data
        return ("load_incomplete", f"loaded system lacks a part: {type(e).__name__}: {e}")
    for key, want in saved.items():
        if key == "matrices":
            for mk, mv in want.items():
                if mk not in got["matrices"]:
                    if partial:
                        continue
                    return ("matrix_missing", f"matrix '{mk}' was saved but is not in the loaded system")
                if got["matrices"][mk].shape != mv.shape or not np.array_equal(got["matrices"][mk], mv):
                    return ("matrix_differs", f"matrix '{mk}' of the loaded system differs from the saved one")
            continue
        if key not in got:
            if partial or key in ("positions", "atom_labels", "magnetic_moments"):
                continue
            return ("property_missing", f"'{key}' missing after load")
        a, b = got[key], want
        if key == "pointgroup":
            if a != b:
                return ("pointgroup_differs", f"point group of the loaded system has {len(a)} operations / differs from the saved {len(b)}")
        elif isinstance(b, np.ndarray):
            if np.shape(a) != b.shape or not np.array_equal(np.asarray(a), b):
                return ("property_differs", f"'{key}' of the loaded system differs from the saved one")
        elif a != b:
            return ("property_differs", f"'{key}' of the loaded system is {a!r}, saved {b!r}")
    return None


def simulate(dec, rec, tier="quick"):
    with Scratch("c18") as scr:
        return _simulate(dec, rec, tier, scr)


def _simulate(dec, rec, tier, scr):
    sym = zoo.draw_symmetry(dec, "sym")
    mats = [m for i, m in enumerate(MATS) if dec.chance(f"mats/{m}", 1, 2)]
    nwA = 1 + dec("A/num_wann", 5)
    A = make_system(dec, "A", sym, mats, nwA, 4 + dec("A/nR", 8))
    if nwA % 2:
        rec.fire("odd_num_wann")
    if hasattr(A, "positions"):
        rec.fire("structure_arrays")
    if len(A.pointgroup.symmetries) > 1:
        rec.fire("pointgroup_nontrivial")
    if not all(A.periodic):
        rec.fire("non_periodic_direction")
    hist_kind = ["save_load", "save_save_load", "crash_load", "crash_resave_load"][dec.pick("hist/kind", [3, 2, 2, 2])]
    disk = SimDisk(dec, rec)
    path = os.path.join(scr.path, "sys_npz")
    sample = dict(num_wann=nwA, matrices=["Ham"] + mats, lattice=sym["family"], gens=sym["gens"], periodic=sym["periodic"],
                  history=hist_kind, listing=disk.listing)
    base = dict(sample=sample, counters={}, real=REAL, stub=STUB, vtime=0.0)
    hist = [nwA, mats, sym["family"], sym["gens"], sym["periodic"], hist_kind, disk.listing]

    def finish(viol=None, nontrivial=True):
        sig = hashlib.blake2b(repr(hist).encode(), digest_size=8).hexdigest()
        out = dict(base, sig=sig, nontrivial=nontrivial, verdict="ok")
        if viol:
            out.update(verdict="violation", kind=viol[0], message=viol[1])
        return out

    old_glob, old_np = _sr.glob, _sr.np
    _sr.glob, _sr.np = disk.glob, _NpShim(disk)
    try:
        target = A
        with zoo.quiet():
            if hist_kind in ("save_load", "save_save_load"):
                A.to_npz(path)
                if hist_kind == "save_save_load":
                    nwB = 1 + dec("B/num_wann", 5)
                    B = make_system(dec, "B", sym, mats, nwB, 4 + dec("B/nR", 8))
                    # the second save must produce the same set of files: same optional arrays as the first
                    for key in ("positions", "atom_labels", "magnetic_moments"):
                        if hasattr(A, key) and not hasattr(B, key):
                            setattr(B, key, np.array(getattr(A, key)))
                        if hasattr(B, key) and not hasattr(A, key):
                            delattr(B, key)
                    B.to_npz(path, overwrite=True)
                    rec.fire("second_save")
                    sample["second_num_wann"] = nwB
                    hist.append(nwB)
                    target = B
            else:
                # count the operations of a complete save, then crash before a drawn one
                probe_disk = SimDisk(dec, rec, prefix="fsprobe", listing=0)
                _sr.np = _NpShim(probe_disk)
                A.to_npz(os.path.join(scr.path, "probe"))
                N = probe_disk.nops
                _sr.np = _NpShim(disk)
                c = 1 + dec("crash/op", N)
                opens = [n for n, kind_, _ in probe_disk.oplog if kind_ == "open"]
                if opens and dec.chance("crash/at_boundary", 1, 3):      # bias some kills to land between two files
                    c = opens[dec("crash/boundary", len(opens))]
                disk.crash_at = c
                disk.crash_cut = dec("crash/cut", 4)
                kind = probe_disk.oplog[c - 1][1]
                hist.append((c, disk.crash_cut))
                sample["crash"] = dict(op=c, of=N, kind=kind, file=probe_disk.oplog[c - 1][2], cut=disk.crash_cut)
                try:
                    A.to_npz(path)
                    return dict(finish(), verdict="inconclusive", kind="crash_not_fired", message="")
                except SimCrash:
                    rec.fire("crash_fired")
                    rec.fire("crash_between_files" if kind == "open" else "crash_mid_file")
                # a new process: fresh disk object (same listing policy)
                disk2 = SimDisk(dec, rec, prefix="fs2", listing=SimDisk.LISTING.index(disk.listing))
                _sr.glob, _sr.np = disk2.glob, _NpShim(disk2)
                if hist_kind == "crash_resave_load":
                    A.to_npz(path, overwrite=True)
                    rec.fire("resave_after_crash")
        # ---- load
        partial = hist_kind == "crash_load"
        try:
            with zoo.quiet():
                L = wb.System_R.from_npz(path)
        except Exception as e:
            if partial:
                rec.fire("load_after_crash_raised")
                return finish()
            return finish(("load_raises", f"from_npz raised {type(e).__name__}: {e} (history {hist_kind}, listing {disk.listing})"))
        if partial:
            rec.fire("load_after_crash_returned")
        rec.fire("loads_checked")
        v = compare(describe(target), L, partial=partial)
        if v:
            return finish((v[0], v[1] + f" (history {hist_kind}, listing {disk.listing})"))
        if not partial:
            # by-product: same bands at seeded k
            rs = np.random.RandomState(3)
            k = rs.random_sample(3)
            try:
                with zoo.quiet():
                    e0 = wb.evaluate_k(target, k=tuple(k), quantities=["energy"])
                    e1 = wb.evaluate_k(L, k=tuple(k), quantities=["energy"])
                rec.fire("bands_compared")
                if np.max(np.abs(e0 - e1)) > 1e-10 * max(1.0, np.max(np.abs(e0))):
                    return finish(("bands_differ", f"band energies of the reloaded system differ by {np.max(np.abs(e0 - e1)):.3e}"))
                # "... and Berry curvature": depends on the Wannier-centre shifts of the R-vectors, which the matrices
                # alone do not pin down
                qb = ["berry_curvature_internal_terms"] + (["berry_curvature"] if "AA" in mats else [])
                with zoo.quiet():
                    b0 = wb.evaluate_k(target, k=tuple(k), quantities=qb, return_single_as_dict=True)
                    b1 = wb.evaluate_k(L, k=tuple(k), quantities=qb, return_single_as_dict=True)
                rec.fire("berry_compared")
                for q in qb:
                    if np.max(np.abs(b0[q] - b1[q])) > 1e-9 * max(1.0, np.max(np.abs(b0[q]))):
                        return finish(("berry_differs", f"'{q}' of the reloaded system differs by {np.max(np.abs(b0[q] - b1[q])):.3e} "
                                                        f"although lattice, centres, R-vectors and matrices are identical "
                                                        f"(history {hist_kind}, listing {disk.listing})"))
            except Exception as e:
                return finish(("reloaded_unusable", f"evaluate_k on the reloaded system raised {type(e).__name__}: {e}"))
    finally:
        _sr.glob, _sr.np = old_glob, old_np
    nontrivial = hist_kind != "save_load" or disk.listing != "sorted"
    return finish(nontrivial=nontrivial)
