"""Counter-based decisions.

Every choice a simulated run makes is ``D(key, n)``: an integer in ``[0, n)`` that is a pure
function of (run seed, key).  There is no shared PRNG stream, so adding or removing a decision,
or logging, never shifts any other decision.  Value 0 is by construction the benign choice
(fastest task, nested ready set, sorted listing, no crash, smallest configuration), so
minimisation is "set decisions to 0".

In *replay* mode the seed is ignored and values come from an explicit table
(missing key = 0): a replay is a pure function of the table and the code.
"""
import hashlib


def _h(seed: bytes, key: str) -> int:
    return int.from_bytes(hashlib.blake2b(seed + b"\x00" + key.encode(), digest_size=8).digest(), "big")


def run_seed(verif_seed: int, prop: str, run_no: int) -> str:
    """Run seed derived from (VERIF_SEED, property, run number) - a short hex string."""
    return hashlib.blake2b(f"{verif_seed}/{prop}/{run_no}".encode(), digest_size=8).hexdigest()


class Decisions:
    def __init__(self, seed=None, table=None):
        """seed: hex string -> record mode; table: dict key->int -> replay mode."""
        assert (seed is None) != (table is None)
        self.seed = None if seed is None else seed.encode()
        self.table = table
        self.taken = {}  # key -> (value, n)   in order of first use

    @property
    def replaying(self):
        return self.table is not None

    def __call__(self, key: str, n: int) -> int:
        """integer in [0, n); 0 is the benign choice."""
        if n <= 1:
            return 0
        if key in self.taken:
            v, n0 = self.taken[key]
            return v if v < n else v % n
        if self.table is not None:
            v = int(self.table.get(key, 0))
            if v >= n:
                v = v % n
        else:
            v = _h(self.seed, key) % n
        self.taken[key] = (v, n)
        return v

    def pick(self, key: str, weights) -> int:
        """index into `weights` chosen with probability proportional to the weight; the stored
        decision is the index itself (index 0 = benign)."""
        n = len(weights)
        if n <= 1:
            return 0
        if key in self.taken:
            return self.taken[key][0]
        if self.table is not None:
            v = int(self.table.get(key, 0)) % n
        else:
            tot = int(sum(weights))
            r = _h(self.seed, key) % tot
            v = 0
            for i, w in enumerate(weights):
                if r < w:
                    v = i
                    break
                r -= w
        self.taken[key] = (v, n)
        return v

    def chance(self, key: str, num: int, den: int) -> bool:
        """True with probability num/den; stored as 0 (False, benign) / 1 (True)."""
        return self.pick(key, [den - num, num]) == 1

    def perm(self, key: str, n: int):
        """a permutation of range(n): decision 0 -> identity; otherwise a permutation generated
        from (seed-independent) hash of the decision value, so that replay needs only the value."""
        v = self(key, 1 << 30)
        return perm_from_value(v, n)

    def forced(self, key: str) -> int:
        """a replay-only decision: 0 while searching, the table value when replaying (used to pin a replay to
        the one element of an in-run enumeration that failed)"""
        if self.table is None:
            return 0
        v = int(self.table.get(key, 0))
        if v:
            self.taken[key] = (v, v + 1)
        return v

    def nonzero(self):
        return {k: v for k, (v, n) in self.taken.items() if v != 0}

    def all_taken(self):
        return {k: [v, n] for k, (v, n) in self.taken.items()}


def perm_from_value(v: int, n: int):
    idx = list(range(n))
    if v == 0:
        return idx
    s = str(v).encode()
    keyed = sorted(idx, key=lambda i: hashlib.blake2b(s + b"/" + str(i).encode(), digest_size=8).digest())
    return keyed
