"""Entry point of the checks:  check <ID> [--tier quick|thorough] | --replay <file> | --selftest-determinism <ID>

exit 0  the property held on everything explored (KNOWN-FINDING lines may be printed)
exit 1  a violation not listed in known_findings.txt was found: `VIOLATION property=<id> replay=<path>`
exit 2  HARNESS-ERROR (a simulated run died, hung or the harness raised): nothing is claimed
"""
import argparse
import importlib
import json
import os
import re
import sys
import time

HERE = os.path.dirname(os.path.abspath(__file__))
VERIF = os.path.dirname(HERE)
# where evidence/ and replays/ are written: /verif, unless a mutant / scratch run redirects it
OUT = os.environ.get("VERIF_OUT", VERIF)


def _reexec_with_env():
    want = {"PYTHONHASHSEED": os.environ.get("VERIF_HASHSEED", "0"), "OMP_NUM_THREADS": "1",
            "OPENBLAS_NUM_THREADS": "1", "MKL_NUM_THREADS": "1", "PYTHONDONTWRITEBYTECODE": "1",
            "WANNIERBERRI_VERIF": "1"}
    if any(os.environ.get(k) != v for k, v in want.items()):
        env = dict(os.environ)
        env.update(want)
        os.execve(sys.executable, [sys.executable] + sys.argv, env)


def _import_repo():
    repo = os.environ.get("WB_REPO", "/repo")
    sys.path.insert(0, repo)
    sys.path.insert(0, VERIF)
    import wannierberri
    real = os.path.realpath(wannierberri.__file__)
    if not real.startswith(os.path.realpath(repo) + os.sep):
        print(f"HARNESS-ERROR: wannierberri imported from {real}, not from {repo}")
        sys.exit(2)
    return repo


def load_driver(prop):
    return importlib.import_module(f"sim.drivers.{prop.lower()}")


def load_known(prop):
    known = []
    path = os.path.join(VERIF, "known_findings.txt")
    if os.path.exists(path):
        for line in open(path):
            line = line.strip()
            m = re.match(r"known:\s+property=(\S+)\s+kind=(\S+)\s+match=(.*?)\s+::\s+(.*)$", line)
            if m and m.group(1) == prop:
                known.append(dict(kind=m.group(2), match=m.group(3), text=m.group(4)))
    return known


def match_known(known, res):
    for k in known:
        if k["kind"] == res.get("kind") and re.search(k["match"], res.get("message", "") + " " + json.dumps(res.get("sample", {}), default=str)):
            return k
    return None


def cmd_check(args):
    from .runner import Job, run_jobs, seeds_for, LanePool
    from .minimise import minimise
    prop = args.prop.upper()
    driver = load_driver(prop)
    tier = args.tier
    verif_seed = int(os.environ.get("VERIF_SEED", "0"))
    lanes = int(os.environ.get("VERIF_LANES", str(min(getattr(driver, "LANES", 16), os.cpu_count() or 1))))
    budget = float(os.environ.get("VERIF_BUDGET_S", driver.BUDGET[tier]))
    max_runs = int(os.environ.get("VERIF_MAX_RUNS", driver.MAX_RUNS[tier]))
    pool = LanePool(prop, lanes)
    t0 = time.time()
    deadline = t0 + budget
    print(f"check {prop} tier={tier} VERIF_SEED={verif_seed} lanes={lanes} budget={budget:.0f}s max_runs={max_runs}", flush=True)

    agg = dict(runs=0, ok=0, violation=0, inconclusive=0, harness_error=0, vtime=0.0, counters={}, sigs=set(),
               samples=[], violations=[], harness=[], inconclusive_reasons={}, real=set(), stub=set(), wall_runs=0.0,
               trivial=0)

    def jobs():
        for i, s in seeds_for(prop, verif_seed):
            if i >= max_runs:
                return
            yield Job((i, s), s, replay=False, extra=dict(tier=tier))

    def on_result(job, r):
        agg["runs"] += 1
        v = r.get("verdict", "harness_error")
        agg[v] = agg.get(v, 0) + 1
        agg["vtime"] += float(r.get("vtime", 0.0))
        agg["wall_runs"] += r.get("wall_s", 0.0)
        agg["sim_s"] = agg.get("sim_s", 0.0) + r.get("sim_s", 0.0)
        for k, c in r.get("counters", {}).items():
            agg["counters"][k] = agg["counters"].get(k, 0) + c
        for k in r.get("real", []):
            agg["real"].add(k)
        for k in r.get("stub", []):
            agg["stub"].add(k)
        if v in ("ok", "violation", "inconclusive"):
            if r.get("nontrivial", True) and r.get("sig"):
                agg["sigs"].add(r["sig"])
            else:
                agg["trivial"] += 1
            if len(agg["samples"]) < 4 and r.get("sample") is not None:
                agg["samples"].append(dict(run=job.tag[0], seed=job.tag[1], verdict=v, case=r["sample"]))
        if v == "violation":
            agg["violations"].append((job, r))
        elif v == "inconclusive":
            why = r.get("kind", "?")
            agg["inconclusive_reasons"][why] = agg["inconclusive_reasons"].get(why, 0) + 1
        elif v == "harness_error":
            agg["harness"].append((job, r))

    def stop_when():
        return len(agg["violations"]) >= 6 or len(agg["harness"]) >= 5

    run_jobs(driver, jobs(), deadline=deadline, on_result=on_result, stop_when=stop_when, pool=pool)
    wall_search = time.time() - t0

    # ------------------------------------------------------------------ violations -> minimise -> replay files
    known = load_known(prop)
    exit_code = 0
    reported = []
    os.makedirs(os.path.join(OUT, "replays"), exist_ok=True)
    seen_kinds = {}
    n_unlisted = 0
    for job, r in agg["violations"]:
        kind = r.get("kind", "?")
        if kind in seen_kinds and seen_kinds[kind] >= 1:
            continue
        seen_kinds[kind] = seen_kinds.get(kind, 0) + 1
        table = dict(r.get("decisions", {}))
        mres = None
        mstat = {}
        if not args.no_minimise:
            print(f"  violation kind={kind} run={job.tag[0]} seed={job.tag[1]}: minimising {len(table)} decisions ...", flush=True)
            table, mres, mstat = minimise(driver, table, kind, pool=pool, extra=dict(tier=tier),
                                          max_wall=float(os.environ.get("VERIF_MINIMISE_S", "120")),
                                          log=lambda s: print(s, flush=True))
        final = mres or r
        path = os.path.join(OUT, "replays", f"{prop}-{kind}-{job.tag[1]}.json")
        replay = dict(property=prop, violation_kind=kind, message=final.get("message"), tier=tier,
                      found_by=dict(verif_seed=verif_seed, run=job.tag[0], run_seed=job.tag[1],
                                    original_decisions=len(r.get("decisions", {}))),
                      minimise=mstat, decisions=table,
                      expect=dict(digest=final.get("digest"), message=final.get("message"), kind=kind),
                      sample=final.get("sample"), event_head=final.get("event_head"))
        with open(path, "w") as f:
            json.dump(replay, f, indent=1, default=str)
        k = match_known(known, final)
        if k is not None:
            print(f"KNOWN-FINDING: property={prop} {k['text']}  (replay={path})")
        else:
            n_unlisted += 1
            exit_code = 1
            print(f"VIOLATION property={prop} replay={path}")
            print(f"  kind={kind}: {final.get('message')}")
        reported.append(dict(kind=kind, replay=path, known=k is not None, message=final.get("message")))

    if agg["harness"]:
        for job, r in agg["harness"][:5]:
            print(f"HARNESS-ERROR property={prop} run={job.tag[0]} seed={job.tag[1]}: {r.get('message')}")
            if r.get("traceback"):
                print(r["traceback"])
        if exit_code == 0:
            exit_code = 2

    pool.close()
    # ------------------------------------------------------------------ evidence
    wall = time.time() - t0
    evals = agg["ok"] + agg["violation"] + agg["inconclusive"]
    probe_names = list(getattr(driver, "PROBES", [])) + (list(getattr(driver, "PROBES_THOROUGH", [])) if tier == "thorough" else [])
    probes = {k: agg["counters"].get(k, 0) for k in probe_names}
    cov = dict(
        evaluations=evals,
        distinct_nontrivial=len(agg["sigs"]),
        rule=driver.RULE,
        samples=agg["samples"] or [dict(note="no run completed")],
        exhaustive=False,
        runs_per_hour=round(evals / max(wall_search, 1e-9) * 3600),
        seeds="run seeds = blake2b(VERIF_SEED/property/run#), run# = 0.." + str(max(agg["runs"] - 1, 0)),
        simulated_seconds=round(agg["vtime"], 3),
        faults_and_events_fired=dict(sorted(agg["counters"].items())),
        rare_condition_probes=probes,
        probes_stuck_at_zero=sorted(k for k, v in probes.items() if v == 0),
        verdicts=dict(ok=agg["ok"], violation=agg["violation"], inconclusive=agg["inconclusive"],
                      harness_error=agg["harness_error"], trivial_or_unsigned=agg["trivial"]),
        inconclusive_reasons=agg["inconclusive_reasons"],
        components_real=sorted(agg["real"]) or getattr(driver, "REAL", []),
        components_stub=sorted(agg["stub"]) or getattr(driver, "STUB", []),
        reported=reported,
        cpu_seconds_in_runs=round(agg["wall_runs"], 1),
        seconds_in_simulate=round(agg.get("sim_s", 0.0), 1),
        lanes=lanes,
    )
    ev = dict(property_id=prop, tier=tier, seed=verif_seed, level=driver.LEVEL.get(tier, "exploration") if isinstance(driver.LEVEL, dict) else driver.LEVEL,
              coverage=cov, assumptions=list(driver.ASSUMPTIONS), wall_s=round(wall, 2),
              violations=n_unlisted)
    os.makedirs(os.path.join(OUT, "evidence"), exist_ok=True)
    with open(os.path.join(OUT, "evidence", f"{prop}.json"), "w") as f:
        json.dump(ev, f, indent=1, default=str)
    print(f"{prop}: runs={evals} distinct={len(agg['sigs'])} violations={agg['violation']} (unlisted kinds {n_unlisted}) "
          f"inconclusive={agg['inconclusive']} harness_errors={agg['harness_error']} wall={wall:.1f}s "
          f"({cov['runs_per_hour']} runs/h)")
    zero = cov["probes_stuck_at_zero"]
    if zero:
        print(f"  probes stuck at zero: {zero}")
    return exit_code


def cmd_replay(args):
    from .runner import run_one_inline
    rp = json.load(open(args.replay))
    prop = rp["property"]
    driver = load_driver(prop)
    res = run_one_inline(driver, table=rp["decisions"], tier=rp.get("tier", "quick"))
    same_digest = res.get("digest") == rp["expect"].get("digest")
    print(f"replay {args.replay}: verdict={res.get('verdict')} kind={res.get('kind')} digest={res.get('digest')} "
          f"(expected {rp['expect'].get('digest')}: {'same' if same_digest else 'DIFFERENT'})")
    print(f"  message: {res.get('message')}")
    if res.get("verdict") == "harness_error":
        print(res.get("traceback", ""))
        return 2
    if res.get("verdict") == "violation":
        print(f"VIOLATION property={prop} replay={args.replay}")
        return 1
    return 0


def cmd_selftest_determinism(args):
    """run N seeds twice each (and compare with digests from another lane count / hash seed when given a file)"""
    from .runner import Job, run_jobs, seeds_for, LanePool
    prop = args.prop.upper()
    driver = load_driver(prop)
    n = args.n
    lanes = int(os.environ.get("VERIF_LANES", "16"))
    verif_seed = int(os.environ.get("VERIF_SEED", "0"))
    digests = [{}, {}]
    for rep in (0, 1):
        def jobs():
            for i, s in seeds_for(prop, verif_seed):
                if i >= n:
                    return
                yield Job((i, s), s, extra=dict(tier=args.tier))
        with LanePool(prop, lanes if rep == 0 else max(1, lanes // 4)) as pool:
            run_jobs(driver, jobs(), pool=pool,
                     on_result=lambda j, r, rep=rep: digests[rep].__setitem__(j.tag[0], (r.get("digest"), r.get("verdict"), r.get("kind"))))
    bad = [i for i in range(n) if digests[0].get(i) != digests[1].get(i)]
    out = dict(property=prop, n=n, hashseed=os.environ.get("PYTHONHASHSEED"), lanes=[lanes, max(1, lanes // 4)],
               mismatches=bad, digests={str(i): digests[0].get(i) for i in range(n)})
    if args.out:
        json.dump(out, open(args.out, "w"))
    if args.compare:
        other = json.load(open(args.compare))
        bad2 = [i for i in range(n) if list(digests[0].get(i) or []) != list(other["digests"].get(str(i)) or [])]
        print(f"compare with {args.compare} (hashseed {other.get('hashseed')}): {len(bad2)} mismatches {bad2[:10]}")
        bad += bad2
    herr = [i for i in range(n) if (digests[0].get(i) or [None, "harness_error"])[1] == "harness_error"]
    print(f"determinism {prop}: {n} seeds x 2 (lanes {lanes} vs {max(1, lanes // 4)}), PYTHONHASHSEED={os.environ.get('PYTHONHASHSEED')}: "
          f"{len(bad)} mismatches {bad[:10]}; harness errors {len(herr)}")
    return 0 if not bad and not herr else 2


def main():
    _reexec_with_env()
    ap = argparse.ArgumentParser()
    ap.add_argument("prop", nargs="?")
    ap.add_argument("--tier", default=os.environ.get("VERIF_TIER", "quick"), choices=["quick", "thorough"])
    ap.add_argument("--replay")
    ap.add_argument("--no-minimise", action="store_true")
    ap.add_argument("--selftest-determinism", action="store_true")
    ap.add_argument("-n", type=int, default=200)
    ap.add_argument("--out")
    ap.add_argument("--compare")
    ap.add_argument("--lane")
    args = ap.parse_args()
    _import_repo()
    if args.lane:
        from .runner import lane_main
        rfd, wfd = (int(x) for x in args.lane.split(","))
        lane_main(load_driver(args.prop.upper()), rfd, wfd)
        return
    if args.replay:
        sys.exit(cmd_replay(args))
    if args.selftest_determinism:
        sys.exit(cmd_selftest_determinism(args))
    if not args.prop:
        ap.error("property id required")
    sys.exit(cmd_check(args))


if __name__ == "__main__":
    main()
