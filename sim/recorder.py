"""Event log, digest, fired-fault counters and rare-condition probes of one simulated run.

Logging never draws a decision and never reads a real clock.
"""
import hashlib
import numpy as np


def _fmt(x):
    if isinstance(x, (bool, np.bool_)):
        return "T" if x else "F"
    if isinstance(x, (int, np.integer)):
        return str(int(x))
    if isinstance(x, (float, np.floating)):
        return "%.12g" % float(x)
    if isinstance(x, complex):
        return "%.12g%+.12gj" % (x.real, x.imag)
    if isinstance(x, str):
        return x
    if isinstance(x, (list, tuple, np.ndarray)):
        return "[" + ",".join(_fmt(y) for y in x) + "]"
    if x is None:
        return "-"
    return repr(x)


class Recorder:
    def __init__(self, keep=400):
        self.h = hashlib.blake2b(digest_size=16)
        self.n = 0
        self.keep = keep
        self.head = []          # first `keep` event lines (for replay files / debugging)
        self.fired = {}         # fault kind / rare condition -> count
        self.notes = {}

    def ev(self, kind, *args):
        line = f"{self.n} {kind} " + " ".join(_fmt(a) for a in args)
        self.h.update(line.encode() + b"\n")
        if len(self.head) < self.keep:
            self.head.append(line)
        self.n += 1

    def fire(self, kind, k=1):
        self.fired[kind] = self.fired.get(kind, 0) + k

    def digest(self):
        return self.h.hexdigest()


def arr_digest(a):
    """digest of an array rounded to 12 significant digits (robust to last-bit noise is NOT intended:
    replays are bit-for-bit reproducible because BLAS/FFTW are single threaded and inputs identical)."""
    a = np.ascontiguousarray(np.asarray(a))
    return hashlib.blake2b(a.tobytes(), digest_size=6).hexdigest()
