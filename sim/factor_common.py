"""Shared workload of C03 / C30: one k-point set, every factorisation N_i = NKdiv_i x NKFFT_i.

NKdiv x NKFFT is how run() partitions the k-set into schedulable jobs (K-points) and in-job batches
(FFT sub-grid): the chunk-size knob of the executor, randomised / enumerated per run together with
the FFT library and the (simulated) worker schedule.
"""
import itertools
import numpy as np

import wannierberri as wb
from wannierberri import models
from wannierberri.calculators.calculator import Calculator
from wannierberri.result import EnergyResult
from wannierberri.symmetry.point_symmetry import transform_ident

from . import zoo

SYSTEMS = ["random", "random_big", "haldane", "chiral"]


def divisors(n):
    return [d for d in range(1, n + 1) if n % d == 0]


def all_factorisations(N, constraint="any", periodic=(True, True, True)):
    """list of (NKdiv, NKFFT); constraint 'N1=N2' keeps the in-plane factors equal"""
    per = [divisors(n) if p else [1] for n, p in zip(N, periodic)]
    out = []
    for f in itertools.product(*per):
        if constraint == "N1=N2" and f[0] != f[1]:
            continue
        out.append((tuple(n // fi for n, fi in zip(N, f)), tuple(f)))
    return out


def draw_case(dec, p="cfg", thorough=False, want_tab=None):
    kind = SYSTEMS[dec.pick(f"{p}/system", [4, 2, 2, 1])]
    cfg = dict(system=kind, sys_seed=1 + dec(f"{p}/sys_seed", 500))
    ch = (2, 3, 4, 6, 5, 1, 7) if thorough else (2, 3, 4, 1, 6, 5, 7)
    if kind in ("random", "random_big"):
        cfg["num_wann"] = (2 + dec(f"{p}/num_wann", 2)) if kind == "random" else 4
        cfg["nRvec"] = 7 if kind == "random" else 12
        cfg["max_R"] = 1 + dec(f"{p}/max_R", 2)
        N = [ch[dec(f"{p}/N/{i}", len(ch))] for i in range(3)]
        # keep the number of factorisations (and k-points) bounded
        while np.prod([len(divisors(n)) for n in N]) > (64 if thorough else 18) or np.prod(N) > (216 if thorough else 96):
            i = int(np.argmax(N))
            N[i] = max(1, N[i] - 1)
        cfg.update(N=N, constraint="any", periodic=[True, True, True], use_irred_kpt=False)
    elif kind == "haldane":
        n = (3, 2, 4, 6, 5, 1)[dec(f"{p}/N/0", 6 if thorough else 4)]
        cfg.update(N=[n, n, 1], constraint="N1=N2", periodic=[True, True, False],
                   use_irred_kpt=bool(dec(f"{p}/irred", 2)))
    else:  # chiral: 3D hexagonal-like model with C3z
        n = (2, 3, 4, 6)[dec(f"{p}/N/0", 4 if thorough else 3)]
        nz = (2, 1, 3, 4)[dec(f"{p}/N/2", 4 if thorough else 3)]
        cfg.update(N=[n, n, nz], constraint="N1=N2", periodic=[True, True, True],
                   use_irred_kpt=bool(dec(f"{p}/irred", 2)))
    cfg["calcs"] = [["ahc", "dos"], ["cumdos", "ohmic"], ["ahc", "bcd"], ["dos", "ohmic_surf"], ["cumdos", "jdos"],
                    ["ahc", "optcond"]][dec(f"{p}/calcs", 6)]
    # Tetrahedron variants only without symmetry reduction: with irreducible K-points the symmetry images of a
    # parallelepiped cell are not grid cells (hexagonal lattices), so the set of integration cells - not only the set of
    # k-points - depends on which K-points are irreducible, i.e. on NKdiv.  That is a statement about symmetry reduction
    # (C07, not claimed here), not about the factorisation mechanism C03 is anchored in.
    cfg["tetra"] = bool(dec.chance(f"{p}/tetra", 1, 5)) and not cfg["use_irred_kpt"]
    cfg["stub"] = bool(dec.chance(f"{p}/stubcalc", 1, 2)) and not cfg["use_irred_kpt"]
    cfg["tab"] = bool(dec.chance(f"{p}/tab", 1, 2)) if want_tab is None else want_tab
    cfg["tab_q"] = [["Energy", "berry"], ["Energy", "vel"], ["Energy", "berry", "vel"], ["Energy", "invmass"]][
        dec.pick(f"{p}/tab_q", [3, 3, 2, 2])]
    nb = cfg.get("num_wann", 2)
    # band selections: all, the first, unsorted non-contiguous (values must come back in the order asked for), last only
    cfg["ibands"] = [None, [0], [nb - 1, 0], [nb - 1]][dec.pick(f"{p}/bands", [4, 2, 2, 1])]
    return cfg


def build_system(cfg):
    kind = cfg["system"]
    if kind in ("random", "random_big"):
        lat = np.eye(3) * 2.0 + 0.35 * np.random.RandomState(cfg["sys_seed"]).random_sample((3, 3))
        return zoo.make_random_system(cfg["sys_seed"], num_wann=cfg["num_wann"], nRvec=cfg["nRvec"], max_R=cfg["max_R"],
                                      real_lattice=lat, berry=True)
    with zoo.quiet():
        if kind == "haldane":
            rs = np.random.RandomState(cfg["sys_seed"])
            m = models.Haldane_ptb(delta=0.2 + 0.1 * rs.rand(), hop1=-1.0, hop2=0.15 + 0.05 * rs.rand(), phi=np.pi / 2)
            s = wb.System_R.from_pythtb(m, silent=True)
            s.set_pointgroup(["C3z"])
        else:
            rs = np.random.RandomState(cfg["sys_seed"])
            m = models.Chiral(delta=2, hop1=1, hop2=1. / 3, phi=np.pi / 10 + 0.1 * rs.rand(), hopz_left=0.2, hopz_right=0.0, hopz_vert=0)
            s = wb.System_R.from_pythtb(m, silent=True)
            s.set_pointgroup(["C3z"])
    return s


class KSumStub(Calculator):
    """stub calculator on the *real* Data_K: mean over data_K.kpoints_all of a known periodic field;
    records every k it was given (placement / exactly-once monitor)"""

    SEEN = []     # process-global on purpose: tasks under SimRay work on unpickled copies of the calculator

    def __init__(self, seed, nE=2, **kw):
        super().__init__(save_mode="", **kw)
        self.field = zoo.GField(seed, ncomp=nE)
        self.nE = nE
        self.E = np.linspace(0, 1, nE)
        self.comment = "k-sum stub"

    def __call__(self, data_K):
        k = np.asarray(data_K.kpoints_all, dtype=float)
        KSumStub.SEEN.append(np.array(k, copy=True))
        g = self.field(k).mean(axis=0)
        return EnergyResult(self.E, g, transformTR=transform_ident, transformInv=transform_ident, save_mode="", rank=0)

    def reference(self, N):
        g = np.array(np.meshgrid(*[np.arange(n) / n for n in N], indexing="ij")).reshape(3, -1).T
        return self.field(g).mean(axis=0)


def build_calculators(cfg, system, mode="grid"):
    from wannierberri import calculators as calc
    Ef = zoo.fermi_grid(4, -1.5, 2.5)
    names = [c for c in cfg["calcs"] if c not in ("jdos", "optcond")]
    calcs = zoo.real_calculators(names, Ef, tetra=cfg["tetra"])
    omega = np.linspace(0.1, 3.0, 4) + 0.0123
    if "jdos" in cfg["calcs"]:
        calcs["jdos"] = calc.dynamic.JDOS(Efermi=Ef[:2], omega=omega, smr_fixed_width=0.2)
    if "optcond" in cfg["calcs"]:
        calcs["optcond"] = calc.dynamic.OpticalConductivity(Efermi=Ef[:2], omega=omega, smr_fixed_width=0.2)
    stub = None
    if cfg["stub"]:
        stub = KSumStub(cfg["sys_seed"] + 17)
        calcs["ksum"] = stub
    if cfg["tab"]:
        calcs["tabulate"] = zoo.real_tabulators(cfg["tab_q"], ibands=cfg["ibands"], mode=mode)
    return calcs, stub


def grid_points(N):
    return np.array(np.meshgrid(*[np.arange(n) / n for n in N], indexing="ij")).reshape(3, -1).T
