"""SimDisk - real files in a per-run scratch directory, with controlled completion.

* `open` injected into the repository modules returns a write proxy for w/a modes: it counts
  operations, tracks which bytes were already handed to the OS (8 KiB buffer model of Python's
  BufferedWriter) and which are still in the user-space buffer;
* process-kill model (`SimCrash`): bytes handed to the OS survive; of the buffered tail a
  decision-chosen prefix survives; nothing in memory survives;
* `OSError(ENOSPC|EIO)` can be raised from a chosen open/write; afterwards the file keeps a torn tail
  and nothing more reaches the disk through that proxy;
* directory listings go through a listing policy (sorted / reversed / fixed hash permutation /
  fresh permutation per call).
"""
import builtins
import errno
import glob as _realglob
import hashlib
import os
import shutil
import tempfile

from .simray import SimCrash

BUF = 8192


def scratch_root():
    for base in ("/dev/shm", tempfile.gettempdir()):
        if os.path.isdir(base) and os.access(base, os.W_OK):
            return base
    return tempfile.gettempdir()


class Scratch:
    """per-run scratch directory (tmpfs), removed on exit"""

    def __init__(self, tag="run"):
        self.path = tempfile.mkdtemp(prefix=f"wbsim-{tag}-{os.getpid()}-", dir=scratch_root())

    def sub(self, name):
        p = os.path.join(self.path, name)
        os.makedirs(p, exist_ok=True)
        return p

    def cleanup(self):
        shutil.rmtree(self.path, ignore_errors=True)

    def __enter__(self):
        return self

    def __exit__(self, *a):
        self.cleanup()


class WriteProxy:
    def __init__(self, disk, path, mode):
        self.disk, self.path, self.mode = disk, path, mode
        self.name = path
        self.append = "a" in mode
        self.data = bytearray()
        self.pos = 0
        self.os_len = 0          # bytes of self.data already handed to the OS
        self.closed = False
        self.failed = False      # after an injected OSError nothing more persists
        if self.append:
            self.base = os.path.getsize(path) if os.path.exists(path) else 0
            if not os.path.exists(path):
                builtins.open(path, "ab").close()
        else:
            self.base = 0
            builtins.open(path, "wb").close()   # truncation happens at open time
        disk.open_proxies.append(self)

    # -- file protocol
    def writable(self):
        return True

    def readable(self):
        return False

    def seekable(self):
        return True

    def fileno(self):
        raise OSError("simulated file has no descriptor")

    def read(self, *a):      # numpy's zipfile_factory only treats objects with a `read` attribute as files
        import io
        raise io.UnsupportedOperation("not readable")

    def tell(self):
        return self.base + self.pos

    def seek(self, off, whence=0):
        if whence == 0:
            p = off - self.base
        elif whence == 1:
            p = self.pos + off
        else:
            p = len(self.data) + off
        if p < 0:
            raise OSError("simulated file: seek before the start of the appended region")
        self.pos = p
        return self.base + self.pos

    def write(self, b):
        if self.closed:
            raise ValueError("I/O operation on closed file.")
        b = bytes(b)
        self.disk.op("write", self.path, proxy=self, incoming=b)
        if self.failed:
            raise OSError(errno.ENOSPC, "No space left on device (simulated)")
        end = self.pos + len(b)
        if self.pos > len(self.data):
            self.data.extend(b"\0" * (self.pos - len(self.data)))
        self.data[self.pos:end] = b
        self.pos = end
        if len(self.data) - self.os_len >= BUF:
            self.os_len = len(self.data)
        return len(b)

    def flush(self):
        if not self.closed and not self.failed:
            self.os_len = len(self.data)
            self._materialise(len(self.data))

    def close(self):
        if self.closed:
            return
        self.disk.op("close", self.path, proxy=self)
        if not self.failed:
            self._materialise(len(self.data))
        self.closed = True
        if self in self.disk.open_proxies:
            self.disk.open_proxies.remove(self)

    def __enter__(self):
        return self

    def __exit__(self, *a):
        self.close()

    def __del__(self):   # like a real file object collected without close(): data is flushed
        try:
            if not self.closed and not self.failed and not self.disk.dead:
                self._materialise(len(self.data))
                self.closed = True
        except Exception:
            pass

    # -- completion control
    def _materialise(self, length):
        with builtins.open(self.path, "r+b") as f:
            f.truncate(self.base)
            f.seek(self.base)
            f.write(bytes(self.data[:length]))

    def tear(self, keep):
        """crash / error: only `keep` bytes of this proxy's data survive"""
        keep = min(max(keep, self.os_len), len(self.data))
        self._materialise(keep)
        self.failed = True


class SimDisk:
    LISTING = ["sorted", "reversed", "hashperm", "shuffle"]
    MODULE_NAMES = ("wannierberri.run_grid", "wannierberri.grid.Kpoint",
                    "wannierberri.result.result", "wannierberri.result.energyresult")

    def __init__(self, dec, rec, prefix="fs", listing=None):
        self.dec, self.rec, self.p = dec, rec, prefix
        self.nops = 0
        self.crash_at = None      # op number (1-based) before which the process is killed
        self.crash_cut = 0
        self.error_at = None      # op number at which an OSError is raised (open / write only)
        self.open_proxies = []
        self.dead = False
        self.oplog = []           # (n, kind, basename) - for crash-site sweeps
        self.nlist = 0
        if listing is None:
            listing = dec.pick(f"{prefix}/listing", [2, 2, 3, 2])
        self.listing = self.LISTING[listing]
        self.list_salt = dec(f"{prefix}/lsalt", 1 << 20)
        self.glob = _GlobShim(self)
        self._saved = []

    # ------------------------------------------------------------ operations and faults
    def op(self, kind, name="", proxy=None, incoming=b""):
        if self.dead:
            raise SimCrash("process already dead")
        self.nops += 1
        base = os.path.basename(str(name))
        if len(self.oplog) < 5000:
            self.oplog.append((self.nops, kind, base))
        if self.crash_at is not None and self.nops == self.crash_at:
            self.rec.ev("crash", self.nops, kind, base, self.crash_cut)
            self.rec.fire("crash_at_" + kind)
            self._kill(proxy, incoming)
            raise SimCrash(f"simulated process kill before op {self.nops} ({kind} {base})")
        if self.error_at is not None and self.nops == self.error_at and kind in ("open", "write"):
            self.rec.ev("oserror", self.nops, kind, base)
            self.rec.fire("oserror_at_" + kind)
            if proxy is not None:
                self._tear(proxy, incoming, self.crash_cut)
            raise OSError(errno.ENOSPC if self.dec(f"{self.p}/errno", 2) == 0 else errno.EIO,
                          "simulated I/O error")

    def _tear(self, proxy, incoming, cut):
        buffered = len(proxy.data) - proxy.os_len
        if cut == 0:      # everything written so far reached the OS, nothing of the current write
            keep = len(proxy.data)
        elif cut == 1:    # the user-space buffer is lost
            keep = proxy.os_len
            if buffered:
                self.rec.fire("torn_buffer_lost")
        elif cut == 2:    # half of the buffered tail
            keep = proxy.os_len + buffered // 2
            if buffered:
                self.rec.fire("torn_partial")
        else:             # the current write got through partially
            if incoming and proxy.pos == len(proxy.data):
                part = max(1, len(incoming) // 2)
                proxy.data.extend(incoming[:part])
                self.rec.fire("torn_partial")
            keep = len(proxy.data)
        proxy.os_len = min(proxy.os_len, keep)
        proxy.tear(keep)

    def _kill(self, proxy, incoming):
        for p in list(self.open_proxies):
            if p is proxy:
                self._tear(p, incoming, self.crash_cut)
            else:
                self._tear(p, b"", self.crash_cut)
        self.open_proxies.clear()
        self.dead = True

    # ------------------------------------------------------------ seams
    def open(self, path, mode="r", *a, **k):
        self.op("open", path)
        if ("w" in mode or "a" in mode) and "b" in mode:
            return WriteProxy(self, path, mode)
        return builtins.open(path, mode, *a, **k)

    def makedirs(self, path, *a, **k):
        self.op("makedirs", path)
        return os.makedirs(path, *a, **k)

    def install(self):
        import importlib
        for mn in self.MODULE_NAMES:
            m = importlib.import_module(mn)
            self._saved.append((m, "open", m.__dict__.get("open", _MISSING)))
            m.open = self.open
        rg = importlib.import_module("wannierberri.run_grid")
        self._saved.append((rg, "glob", rg.glob))
        rg.glob = self.glob
        sr = importlib.import_module("wannierberri.system.system_R")
        self._saved.append((sr, "glob", sr.glob))
        sr.glob = self.glob

    def uninstall(self):
        for m, name, old in reversed(self._saved):
            if old is _MISSING:
                try:
                    delattr(m, name)
                except AttributeError:
                    pass
            else:
                setattr(m, name, old)
        self._saved = []

    # ------------------------------------------------------------ listing
    def order(self, names):
        names = sorted(names)
        self.nlist += 1
        pol = self.listing
        if pol == "sorted":
            out = names
        elif pol == "reversed":
            out = names[::-1]
        elif pol == "hashperm":
            out = sorted(names, key=lambda n: hashlib.blake2b(
                f"{self.list_salt}/{os.path.basename(n)}".encode(), digest_size=8).digest())
        else:
            salt = self.dec(f"{self.p}/shuffle/{self.nlist}", 1 << 20)
            out = sorted(names, key=lambda n: hashlib.blake2b(
                f"{salt}/{self.nlist}/{os.path.basename(n)}".encode(), digest_size=8).digest())
        if out != names and len(names) > 1:
            self.rec.fire("listing_permuted")
            if out[-1] != names[-1]:
                self.rec.fire("listing_last_not_max")
        self.rec.ev("list", self.nlist, len(names), [os.path.basename(n) for n in out][:12])
        return out


class _Missing:
    pass


_MISSING = _Missing()


class _GlobShim:
    """stands in for the `glob` module inside the repository modules"""

    def __init__(self, disk):
        self.disk = disk

    def glob(self, pattern, **kw):
        return self.disk.order(_realglob.glob(pattern, **kw))

    def iglob(self, pattern, **kw):
        return iter(self.glob(pattern, **kw))

    def __getattr__(self, n):
        return getattr(_realglob, n)
