"""Drawing and instantiating run() configurations ("cases").

`draw_case(dec, ...)` produces a JSON-able dict from decisions; `build(cfg)` instantiates fresh
system / grid / calculators objects from it (every simulated segment or comparison run gets its own
objects - nothing in memory is shared between runs that are compared).
"""
import numpy as np

import wannierberri as wb
from . import zoo


def draw_case(dec, p="cfg", kinds=("stub_int", "stub_path", "stub_tabgrid", "real"), kind_w=(6, 2, 2, 1),
              max_iter=5, tetra_ok=True, big=False, NK_choices=None, deep=False):
    kind = kinds[dec.pick(f"{p}/kind", list(kind_w[:len(kinds)]))]
    cfg = dict(kind=kind)
    if kind in ("stub_int", "stub_tabgrid"):
        sym = zoo.draw_symmetry(dec, f"{p}/sym")
        cfg["sym"] = dict(family=sym["family"], real_lattice=np.asarray(sym["real_lattice"]).tolist(), gens=sym["gens"],
                          constraint=sym["constraint"], periodic=sym["periodic"])
        if NK_choices is None:
            NK_choices = (2, 1, 3, 4, 5, 6) if big else (2, 1, 3, 4)
        cfg["NKdiv"] = zoo.draw_NK(dec, f"{p}/NKdiv", sym, choices=NK_choices)
        cfg["use_irred_kpt"] = bool(dec.chance(f"{p}/irred", 1, 2)) and len(sym["gens"]) > 0
        cfg["sys_seed"] = 1 + dec(f"{p}/sys_seed", 1000)
    if kind == "stub_int":
        cfg["NKFFT"] = [1 if not per else [1, 2, 3][dec(f"{p}/NKFFT", 3)] for per in cfg["sym"]["periodic"]]
        if cfg["sym"]["constraint"] == "any" and all(cfg["sym"]["periodic"]) and tetra_ok and dec.chance(f"{p}/tetra", 1, 8):
            cfg["grid_type"] = "GridTetra"
            cfg["use_irred_kpt"] = False
            cfg["tetra_length"] = 2.0 + 0.37 * dec(f"{p}/tetra_len", 4) + 0.0123
        else:
            cfg["grid_type"] = "Grid"
        cfg["adpt_num_iter"] = dec(f"{p}/niter", max_iter + 1)
        cfg["adpt_mesh"] = [2, 3, 4][dec.pick(f"{p}/mesh", [4, 2, 2])]
        if dec.chance(f"{p}/mesh_aniso", 1, 6) and cfg["grid_type"] == "Grid":
            cfg["adpt_mesh"] = [cfg["adpt_mesh"], 2, [1, 3][dec(f"{p}/mesh_z", 2)]]
        cfg["adpt_fac"] = 1 + dec.pick(f"{p}/fac", [4, 2, 1])
        cfg["steer"] = zoo.STEER[dec.pick(f"{p}/steer", [3, 4, 2, 1, 2] if not deep else [0, 5, 0, 1, 2])]
        cfg["steer_seed"] = 1 + dec(f"{p}/steer_seed", 1000)
        cfg["ncalc"] = 1 + dec(f"{p}/ncalc", 3)
        cfg["calc"] = [dict(seed=11 + 7 * i + dec(f"{p}/calc_seed/{i}", 1000), nE=1 + dec(f"{p}/nE/{i}", 3),
                            rank=dec.pick(f"{p}/rank/{i}", [3, 1]), odd=bool(dec(f"{p}/odd/{i}", 2)))
                       for i in range(cfg["ncalc"])]
        cfg["symmetrize"] = bool(dec.chance(f"{p}/symmetrize", 2, 3))
        cfg["stub_shift"] = [0.0, 0.7, 1.3][dec(f"{p}/stub_shift", 3)]
        for i, cc in enumerate(cfg["calc"]):
            cc["smooth"] = bool(cc["nE"] >= 3 and dec.chance(f"{p}/smooth/{i}", 1, 2))
    elif kind == "stub_tabgrid":
        cfg["NKFFT"] = [1 if not per else [1, 2, 3][dec(f"{p}/NKFFT", 3)] for per in cfg["sym"]["periodic"]]
        if cfg["sym"]["constraint"] == "cubic":
            cfg["NKFFT"] = [cfg["NKFFT"][0]] * 3
        elif cfg["sym"]["constraint"] in ("N1=N2", "check"):
            cfg["NKFFT"][1] = cfg["NKFFT"][0]
        cfg["use_irred_kpt"] = False      # stub tabulators are not covariant fields
        cfg["tab"] = [dict(seed=31 + dec(f"{p}/tab_seed/{i}", 1000), rank=r) for i, r in enumerate([0, 1])]
        cfg["nband"] = 1 + dec(f"{p}/nband", 3)
    elif kind == "stub_path":
        cfg["sym"] = dict(family="triclinic", real_lattice=zoo._lat_tric(2.0, 2.2, 2.5, 1).tolist(), gens=[],
                          constraint="any", periodic=[True, True, True])
        cfg["sys_seed"] = 1 + dec(f"{p}/sys_seed", 1000)
        nseg = 1 + dec(f"{p}/nseg", 4)
        nodes = []
        for i in range(nseg + 1):
            if i > 1 and dec.chance(f"{p}/break/{i}", 1, 4):
                nodes.append(None)
                nodes.append([round(0.1 * dec(f"{p}/node/{i}/b{j}", 12) - 0.1, 3) for j in range(3)])
            nodes.append([round(0.1 * dec(f"{p}/node/{i}/{j}", 12) - 0.1, 3) for j in range(3)])
        if nodes[0] == nodes[-1] or len([n for n in nodes if n is not None]) < 2:
            nodes.append([0.37, 0.21, 0.55])
        cfg["nodes"] = nodes
        cfg["nk"] = 2 + dec(f"{p}/nk", 8)
        cfg["k_batch"] = 1 + dec(f"{p}/k_batch", 12)
        cfg["tab"] = [dict(seed=31 + dec(f"{p}/tab_seed/{i}", 1000), rank=r) for i, r in enumerate([0, 1])]
        cfg["nband"] = 1 + dec(f"{p}/nband", 3)
    elif kind == "real":
        cfg["sys_seed"] = 1 + dec(f"{p}/sys_seed", 1000)
        cfg["num_wann"] = 2 + dec(f"{p}/num_wann", 2)
        cfg["NKdiv"] = [[2, 1, 3][dec(f"{p}/NKdiv/{i}", 3)] for i in range(3)]
        cfg["NKFFT"] = [[2, 3, 1][dec(f"{p}/NKFFT/{i}", 3)] for i in range(3)]
        cfg["calcs"] = [["ahc", "dos"], ["cumdos"], ["ahc", "ohmic"], ["dos", "cumdos", "bcd"]][dec(f"{p}/calcs", 4)]
        cfg["tabulate"] = bool(dec.chance(f"{p}/tabulate", 1, 2))
        cfg["adpt_num_iter"] = 0 if cfg["tabulate"] else dec(f"{p}/niter", 3)
        cfg["adpt_mesh"] = 2
        cfg["adpt_fac"] = 1 + dec(f"{p}/fac", 2)
        cfg["fftlib"] = ["fftw", "numpy"][dec(f"{p}/fftlib", 2)]
        cfg["use_irred_kpt"] = False
    return cfg


def npoints(cfg):
    if cfg["kind"] == "stub_path":
        return None
    return int(np.prod(cfg["NKdiv"]))


def build(cfg):
    """fresh objects for one call of run(): dict(system, grid, calculators, kwargs, aux)"""
    kind = cfg["kind"]
    aux = {}
    if kind in ("stub_int", "stub_tabgrid", "stub_path"):
        sym = cfg["sym"]
        system = zoo.make_stub_system(sym, seed=cfg["sys_seed"], num_wann=cfg.get("nband", 1))
    if kind == "stub_int":
        with zoo.quiet():
            if cfg["grid_type"] == "GridTetra":
                import warnings
                with warnings.catch_warnings():
                    warnings.simplefilter("ignore")
                    grid = wb.grid.GridTetra(system, length=cfg["tetra_length"], NKFFT=cfg["NKFFT"])
            else:
                grid = wb.Grid(system=system, NKdiv=cfg["NKdiv"], NKFFT=cfg["NKFFT"], use_symmetry=cfg["use_irred_kpt"])
        pg = system.pointgroup if cfg["use_irred_kpt"] else None
        calcs = {}
        for i, c in enumerate(cfg["calc"]):
            calcs[f"stub{i}"] = zoo.StubCalc(c["seed"], nE=c["nE"], rank=c["rank"], pointgroup=pg, odd=c["odd"],
                                             smooth=c.get("smooth", False))
        if cfg["steer"] != "natural":
            mesh = cfg["adpt_mesh"]
            nd = int(np.prod(mesh)) if isinstance(mesh, list) else mesh ** int(sum(cfg["sym"]["periodic"]))
            calcs["steer"] = zoo.SteerCalc(cfg["steer"], cfg["steer_seed"], ndiv_prod=nd)
        kwargs = dict(adpt_num_iter=cfg["adpt_num_iter"], adpt_mesh=cfg["adpt_mesh"], adpt_fac=cfg["adpt_fac"],
                      use_irred_kpt=cfg["use_irred_kpt"], symmetrize=cfg["symmetrize"], data_k_class=zoo.StubData,
                      parameters_K=dict(stub_shift=cfg.get("stub_shift", 0.0)))
    elif kind == "stub_tabgrid":
        with zoo.quiet():
            grid = wb.Grid(system=system, NKdiv=cfg["NKdiv"], NKFFT=cfg["NKFFT"], use_symmetry=False)
        tabs = {"Energy": zoo.StubTab(cfg["tab"][0]["seed"], nband=cfg["nband"], rank=0),
                "vec": zoo.StubTab(cfg["tab"][1]["seed"], nband=cfg["nband"], rank=1)}
        aux["tabs"] = tabs
        from wannierberri.calculators.tabulate import TabulatorAll
        calcs = {"tabulate": TabulatorAll(tabs, mode="grid")}
        kwargs = dict(use_irred_kpt=False, symmetrize=False)     # real Data_K_R supplies kpoints_all
    elif kind == "stub_path":
        with zoo.quiet():
            grid = wb.Path.from_nodes(system, nodes=[None if n is None else list(n) for n in cfg["nodes"]], nk=cfg["nk"])
        tabs = {"Energy": zoo.StubTab(cfg["tab"][0]["seed"], nband=cfg["nband"], rank=0),
                "vec": zoo.StubTab(cfg["tab"][1]["seed"], nband=cfg["nband"], rank=1)}
        aux["tabs"] = tabs
        from wannierberri.calculators.tabulate import TabulatorAll
        calcs = {"tabulate": TabulatorAll(tabs, mode="path")}
        kwargs = dict(use_irred_kpt=False, symmetrize=False, data_k_class=zoo.StubData, k_batch=cfg["k_batch"])
    elif kind == "real":
        system = zoo.make_random_system(cfg["sys_seed"], num_wann=cfg["num_wann"], nRvec=7, max_R=1, berry=True)
        with zoo.quiet():
            grid = wb.Grid(system=system, NKdiv=cfg["NKdiv"], NKFFT=cfg["NKFFT"], use_symmetry=False)
        calcs = zoo.real_calculators(cfg["calcs"], zoo.fermi_grid(4, -1.0, 3.0))
        if cfg["tabulate"]:
            calcs["tabulate"] = zoo.real_tabulators(["Energy", "berry"], mode="grid")
        kwargs = dict(adpt_num_iter=cfg["adpt_num_iter"], adpt_mesh=cfg["adpt_mesh"], adpt_fac=cfg["adpt_fac"],
                      use_irred_kpt=False, symmetrize=False, parameters_K=dict(fftlib=cfg["fftlib"]))
    else:
        raise ValueError(kind)
    return dict(system=system, grid=grid, calculators=calcs, kwargs=kwargs, aux=aux)


def brief(cfg):
    """short JSON-able description for samples"""
    out = {k: cfg[k] for k in ("kind", "NKdiv", "NKFFT", "use_irred_kpt", "grid_type", "adpt_num_iter", "adpt_mesh",
                               "adpt_fac", "steer", "nk", "k_batch", "calcs", "tabulate", "fftlib") if k in cfg}
    if "sym" in cfg:
        out["lattice"] = cfg["sym"]["family"]
        out["gens"] = cfg["sym"]["gens"]
        out["periodic"] = cfg["sym"]["periodic"]
    if "nodes" in cfg:
        out["nodes"] = cfg["nodes"]
    return out
