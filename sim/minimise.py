"""Minimiser: ddmin over the set of non-zero decisions, then lowering of surviving values.

Value 0 of every decision is the benign / smallest choice, so "remove a decision" = "set it to 0"
shrinks configuration (fewer iterations, smaller grid, fewer workers, serial-like schedule) and
fault sequence alike.  A candidate is accepted only if the same property violation kind recurs.
Candidates of one ddmin round are executed in parallel forked runs.
"""
import time

from .runner import Job, run_jobs


def _test_many(driver, tables, kind, pool, extra):
    """returns list of (table, result) for those candidates that still violate with the same kind"""
    res = {}
    jobs = [Job(i, t, replay=True, extra=extra) for i, t in enumerate(tables)]
    run_jobs(driver, jobs, pool=pool, on_result=lambda j, r: res.__setitem__(j.tag, r))
    good = []
    for i, t in enumerate(tables):
        r = res.get(i)
        if r and r.get("verdict") == "violation" and r.get("kind") == kind:
            good.append((t, r))
    return good


def minimise(driver, table, kind, pool=None, max_candidates=400, max_wall=120.0, extra=None, log=None):
    extra = extra or {}
    t0 = time.time()
    ncand = 0
    cur = dict(table)
    best_res = None

    def budget_left():
        return ncand < max_candidates and time.time() - t0 < max_wall

    # ---- ddmin over keys
    n = 2
    while len(cur) >= 1 and budget_left():
        keys = sorted(cur)
        n = min(n, len(keys))
        chunks = [keys[i * len(keys) // n:(i + 1) * len(keys) // n] for i in range(n)]
        chunks = [c for c in chunks if c]
        cands = []
        # complements first (remove one chunk), then - for n>2 - the chunks alone
        for c in chunks:
            cands.append({k: v for k, v in cur.items() if k not in c})
        if n > 2:
            for c in chunks:
                cands.append({k: cur[k] for k in c})
        ncand += len(cands)
        good = _test_many(driver, cands, kind, pool, extra)
        if good:
            t, r = min(good, key=lambda tr: len(tr[0]))
            cur, best_res = t, r
            n = max(n - 1, 2)
            if log:
                log(f"  minimise: {len(cur)} decisions left")
            if len(cur) == 0:
                break
        else:
            if n >= len(keys):
                break
            n = min(len(keys), 2 * n)

    # ---- lower surviving values
    changed = True
    while changed and budget_left() and cur:
        changed = False
        cands = []
        meta = []
        for k in sorted(cur):
            v = cur[k]
            for nv in sorted({1, v // 2, v - 1}):
                if 0 < nv < v:
                    t = dict(cur)
                    t[k] = nv
                    cands.append(t)
                    meta.append((k, nv))
        if not cands:
            break
        ncand += len(cands)
        good = _test_many(driver, cands, kind, pool, extra)
        if good:
            # apply the single best lowering (smallest sum of values), then iterate
            t, r = min(good, key=lambda tr: sum(tr[0].values()))
            if t != cur:
                cur, best_res = t, r
                changed = True
    return cur, best_res, dict(candidates=ncand, wall_s=time.time() - t0)
