"""Deterministic simulation with fault injection for wannier-berri (see /verif/DESIGN.md)."""
