"""Systems, point groups, grids, stub Data_K / calculators and real calculator sets for simulated runs.

Everything here is a pure function of decisions (the numpy global RNG is seeded from a decision
right before every use), so a run is reproducible from its decision table alone.
"""
import io
import contextlib
import numpy as np

import wannierberri as wb
from wannierberri.calculators.calculator import Calculator
from wannierberri.result import EnergyResult, KBandResult
from wannierberri.symmetry.point_symmetry import transform_ident, transform_odd, PointGroup

SQ3 = np.sqrt(3.0)

# ----------------------------------------------------------------------------------------------
#  lattices and point groups;  index 0 = benign (triclinic, no symmetry)
# ----------------------------------------------------------------------------------------------
# (name, lattice builder(a,b,c,skew), list of generator sets, grid constraint)
#   constraint: 'any' | 'N1=N2' | 'cubic'


def _lat_tric(a, b, c, s):
    return np.array([[a, 0.1 * s, 0.2 * s], [0.15 * s, b, 0.05 * s], [-0.1 * s, 0.12 * s, c]])


def _lat_mono(a, b, c, s):   # unique axis z
    return np.array([[a, 0.3 * s + 0.1, 0], [0.2 * s, b, 0], [0, 0, c]])


def _lat_orth(a, b, c, s):
    return np.diag([a, b, c])


def _lat_tetr(a, b, c, s):
    return np.diag([a, a, c])


def _lat_cub(a, b, c, s):
    return np.diag([a, a, a])


def _lat_hex(a, b, c, s):
    return np.array([[a, 0, 0], [-a / 2, a * SQ3 / 2, 0], [0, 0, c]])


def _lat_hex60(a, b, c, s):
    return np.array([[a, 0, 0], [a / 2, a * SQ3 / 2, 0], [0, 0, c]])


def _lat_bcc(a, b, c, s):
    return 0.5 * a * np.array([[-1., 1, 1], [1, -1, 1], [1, 1, -1]])


def _lat_fcc(a, b, c, s):
    return 0.5 * a * np.array([[0., 1, 1], [1, 0, 1], [1, 1, 0]])


FAMILIES = [
    ("triclinic", _lat_tric, [[], ["Inversion"], ["TimeReversal"], ["Inversion", "TimeReversal"]], "any"),
    ("monoclinic", _lat_mono, [["C2z"], ["Mz"], ["C2z", "Inversion"], ["C2z", "TimeReversal"], ["TimeReversal*C2z"]],
     "any"),
    ("orthorhombic", _lat_orth, [["C2z", "C2x"], ["Mx", "My"], ["Mx", "My", "Mz"], ["C2z", "TimeReversal*C2x"],
                                 ["C2x", "C2y", "Inversion", "TimeReversal"]], "any"),
    ("tetragonal", _lat_tetr, [["C4z"], ["C4z", "C2x"], ["C4z", "Mx"], ["C4z", "C2x", "Inversion"],
                               ["C4z", "TimeReversal*C2x"], ["C4z", "Inversion", "TimeReversal"]], "N1=N2"),
    ("cubic", _lat_cub, [["C4z", "C4x"], ["C4z", "C4x", "Inversion"], ["C2z", "C2x", "Inversion"],
                         ["C4z", "C4x", "Inversion", "TimeReversal"]], "cubic"),
    ("hexagonal", _lat_hex, [["C3z"], ["C6z"], ["C3z", "C2x"], ["C6z", "C2x", "Inversion"],
                             ["C3z", "TimeReversal*C2x"], ["C6z", "Mz", "TimeReversal"]], "N1=N2"),
    ("hexagonal60", _lat_hex60, [["C3z"], ["C6z", "C2x"], ["C3z", "Mz"]], "N1=N2"),
    # centred cubic lattices: the reduced-coordinate cells are not invariant under the group, so sub-cells of different
    # parents are mapped onto each other (old evaluated points absorb new ones during refinement)
    ("bcc", _lat_bcc, [["C4z", "C4x", "Inversion"], ["C4z", "Inversion"], ["C4z", "C4x"], ["C4z", "C2x", "Inversion", "TimeReversal"],
                       ["C2z", "C2x", "Inversion"]], "cubic"),
    ("fcc", _lat_fcc, [["C4z", "C4x", "Inversion"], ["C4z", "Inversion"], ["C2z", "C2x"], ["C4z", "C4x", "TimeReversal"]], "cubic"),
    # low-symmetry groups on lattices whose symmetry operations mix two reciprocal axes with a non-permutation row:
    # anisotropic grids (N1 != N2) are allowed whenever the group says they are symmetric ("check")
    ("hexagonal_low", _lat_hex, [["C2x"], ["Mx"], ["C2y", "Mz"], ["Mx", "TimeReversal"], ["C2z", "C2x"], ["TimeReversal*C2x", "Mz"]],
     "check"),
    ("centred_rect", lambda a, b, c, s: np.array([[a, 0, 0], [a / 2, b / 2, 0], [0, 0, c]]),
     [["Mx"], ["C2z", "Mx"], ["My"], ["C2x", "Inversion"], ["TimeReversal*Mx", "C2z"]], "check"),
]


def draw_symmetry(dec, p, families=None, allow_2d=True):
    """returns dict(family, real_lattice, gens, constraint, periodic)"""
    fams = FAMILIES if families is None else [f for f in FAMILIES if f[0] in families]
    w = [3] + [2] * (len(fams) - 1)
    fi = dec.pick(f"{p}/family", w)
    name, latf, gensets, constraint = fams[fi]
    a = 1.5 + 0.25 * dec(f"{p}/a", 8)
    b = 1.7 + 0.25 * dec(f"{p}/b", 8)
    c = 1.9 + 0.25 * dec(f"{p}/c", 8)
    s = 1 + dec(f"{p}/skew", 4)
    lat = latf(a, b, c, s)
    gens = gensets[dec(f"{p}/gens", len(gensets))]
    periodic = [True, True, True]
    if allow_2d and name in ("triclinic", "monoclinic", "orthorhombic", "tetragonal", "hexagonal", "hexagonal60", "hexagonal_low",
                             "centred_rect"):
        if dec.chance(f"{p}/2d", 1, 6):
            if name == "triclinic":   # make z orthogonal so that a slab makes sense
                lat = lat.copy()
                lat[2, :2] = 0
                lat[:2, 2] = 0
            periodic = [True, True, False]
    return dict(family=name, real_lattice=lat, gens=list(gens), constraint=constraint, periodic=periodic)


def draw_NK(dec, p, sym, choices=(1, 2, 3, 4, 5, 6)):
    """three integers compatible with the symmetry constraint (index 0 -> smallest)"""
    n1 = choices[dec(f"{p}/N1", len(choices))]
    if sym["constraint"] == "check":
        n = [n1, choices[dec(f"{p}/N2", len(choices))], choices[dec(f"{p}/N3", len(choices))]]
        n = [ni if per else 1 for ni, per in zip(n, sym["periodic"])]
        pg = PointGroup(sym["gens"], real_lattice=np.array(sym["real_lattice"], dtype=float))
        if not pg.symmetric_grid(n):
            n[1] = n[0]
            if not pg.symmetric_grid(n):
                n = [n[0], n[0], n[0]]
        return [ni if per else 1 for ni, per in zip(n, sym["periodic"])]
    if sym["constraint"] == "cubic":
        n = [n1, n1, n1]
    elif sym["constraint"] == "N1=N2":
        n = [n1, n1, choices[dec(f"{p}/N3", len(choices))]]
    else:
        n = [n1, choices[dec(f"{p}/N2", len(choices))], choices[dec(f"{p}/N3", len(choices))]]
    return [ni if per else 1 for ni, per in zip(n, sym["periodic"])]


def quiet():
    return contextlib.redirect_stdout(io.StringIO())


def make_stub_system(sym, seed=1, num_wann=1):
    """a System_R that carries lattice / periodicity / point group; its matrices are irrelevant for stub runs"""
    np.random.seed(seed)
    with quiet():
        # nRvec=1: only R=0, so that any `periodic` setting is consistent with the R-vectors
        s = wb.System_R.from_random(num_wann=num_wann, nRvec=1, real_lattice=np.array(sym["real_lattice"], dtype=float),
                                    max_R=1, berry=False, silent=True, periodic=tuple(sym["periodic"]))
        s.set_R_mat("Ham", s.get_R_mat("Ham"), Hermitian=True, reset=True)
        s.set_pointgroup(sym["gens"])
    return s


def make_random_system(seed, num_wann=2, nRvec=8, max_R=2, real_lattice=None, berry=True, morb=False, spin=False,
                       periodic=(True, True, True), double_spin=False, random_spin=False):
    """Hermitian random System_R (no symmetry)"""
    np.random.seed(seed)
    if real_lattice is None:
        real_lattice = np.eye(3) * 2.0 + 0.3 * np.random.random((3, 3))
    with quiet():
        s = wb.System_R.from_random(num_wann=num_wann, nRvec=nRvec, real_lattice=np.array(real_lattice, dtype=float),
                                    max_R=max_R, berry=berry, morb=morb, spin=spin, silent=True,
                                    periodic=tuple(periodic))
        # from_random fills the matrices while iterating over a *set of strings* (order depends on PYTHONHASHSEED):
        # regenerate them in sorted key order from our own generator so that the system is a function of `seed` only
        rs = np.random.RandomState(seed + 7919)
        for key in sorted(s._XX_R.keys()):
            shape = s.get_R_mat(key).shape
            X = rs.random_sample(shape) + 1j * rs.random_sample(shape)
            if key == "AA":
                X[s.rvec.iR0, s.range_wann, s.range_wann] = 0
            s.set_R_mat(key, X, Hermitian=True, reset=True)
        s._XX_R = {key: s._XX_R[key] for key in sorted(s._XX_R)}      # dict order, too, must not depend on the hash seed
        if double_spin:
            s.double_spin()
            if random_spin:
                # with sigma-pairs every degenerate-group spin trace is exactly zero: replace SS by a random
                # Hermitian matrix so that the comparison is not vacuous
                shape = s.get_R_mat("SS").shape
                SS = rs.random_sample(shape) + 1j * rs.random_sample(shape)
                s.set_R_mat("SS", SS, Hermitian=True, reset=True)
    return s


# ----------------------------------------------------------------------------------------------
#  periodic fields used as stub payloads
# ----------------------------------------------------------------------------------------------
class GField:
    """g_c(k) = sum_j A[c,j] cos(2 pi n_j.k + phi[c,j]);  optionally averaged over a point group so that it is
    a covariant scalar field (g(Sk)=g(k)); unique per k-point for generic coefficients; periodic in k."""

    def __init__(self, seed, ncomp=1, nterms=5, nmax=2, pointgroup=None):
        rs = np.random.RandomState(seed)
        # a fixed set of low-order vectors with generic amplitudes and phases is always present (unit vectors,
        # face and body diagonals, one low-symmetry vector): with only random vectors all n_z may happen to be even, or
        # the odd part may cancel on the orbit of a special point - exact ties between inequivalent K-points
        fixed = np.array([(1, 0, 0), (0, 1, 0), (0, 0, 1), (1, 1, 0), (0, 1, 1), (1, 0, 1), (1, -1, 0), (1, 2, 3)])
        extra = rs.randint(-nmax, nmax + 1, size=(max(nterms - 3, 1), 3))
        self.n = np.vstack([fixed, extra])
        nterms = len(self.n)
        self.A = rs.uniform(0.3, 1.0, size=(ncomp, nterms))
        self.phi = rs.uniform(0, 2 * np.pi, size=(ncomp, nterms))
        self.c0 = rs.uniform(0.5, 1.5, size=ncomp)
        self.ncomp = ncomp
        self.ops = None
        if pointgroup is not None and pointgroup.size > 1:
            B = pointgroup.recip_lattice
            Binv = np.linalg.inv(B)
            # reduced-coordinate action  k_red -> k_red @ M
            self.ops = [np.round(B @ s.R.T @ Binv * (s.iTR * s.iInv), 10) for s in pointgroup.symmetries]

    def _raw(self, k):
        k = np.atleast_2d(k)
        ph = 2 * np.pi * (k @ self.n.T)                      # (nk, nterms)
        return self.c0[None, :] + np.einsum("cj,kcj->kc", self.A, np.cos(ph[:, None, :] + self.phi[None, :, :]))

    def __call__(self, k):
        """k: (nk,3) reduced coordinates -> (nk, ncomp)"""
        k = np.atleast_2d(np.asarray(k, dtype=float))
        if self.ops is None:
            return self._raw(k)
        return sum(self._raw(k @ M) for M in self.ops) / len(self.ops)


# ----------------------------------------------------------------------------------------------
#  stub Data_K and calculators
# ----------------------------------------------------------------------------------------------
class StubData:
    """stands in for Data_K in bookkeeping runs: holds the K-point only"""

    def __init__(self, system, dK=None, grid=None, Kpoint=None, **kw):
        self.Kpoint = Kpoint
        self.system = system
        self.grid = grid
        self.dK = dK
        self.parameters = kw
        self.num_wann = system.num_wann

    @property
    def kpoints_all(self):
        K = np.asarray(self.Kpoint.K)
        if K.ndim == 2:       # path
            return K
        return (np.asarray(self.Kpoint.Kp_fullBZ)[None, :]) % 1

    @property
    def nk(self):
        return len(self.kpoints_all)


def _cell_size(Kp):
    if hasattr(Kp, "vertices"):
        v = np.asarray(Kp.vertices) / np.asarray(Kp.NKFFT)
        return abs(np.linalg.det(v[1:] - v[0][None, :])) / 6.
    if hasattr(Kp, "dK"):
        return float(np.prod(np.asarray(Kp.dK) / np.asarray(Kp.NKFFT)))
    return 0.0


class StubCalc(Calculator):
    """returns a real EnergyResult whose payload is a known pure function of the K-point:
    data[e, (xyz)] = mean_k g_{e,xyz}(k) + eps * cellsize^(1/3)  (the second term makes K-points of different
    refinement level at the same position differ)."""

    def __init__(self, field_seed, nE=2, rank=0, pointgroup=None, odd=False, eps=0.37, save_mode="bin", smooth=False, **kw):
        if smooth:
            save_mode = "bin+txt"       # the text file holds the smoothed columns
        super().__init__(save_mode=save_mode, **kw)
        self.nE, self.rank, self.eps = nE, rank, eps
        self.smoother = None
        self.field = GField(field_seed, ncomp=nE * 3 ** rank, pointgroup=pointgroup if rank == 0 else None)
        self.tr = transform_odd if odd else transform_ident
        self.Energies = np.linspace(-0.5, 0.5, nE) + 0.01234
        if smooth and nE >= 3:
            from wannierberri.smoother import GaussianSmoother
            self.smoother = GaussianSmoother(self.Energies, smear=0.35, maxdE=3)
        self.comment = "stub calculator"

    def __call__(self, data_K):
        k = data_K.kpoints_all
        g = self.field(k).mean(axis=0)
        g = g + self.eps * _cell_size(data_K.Kpoint) ** (1. / 3)
        # a parameter of the Data_K object (parameters_K of run()) enters the payload, so that evaluating with the
        # parameters of ANOTHER run() call changes the numbers
        g = g + float(getattr(data_K, "parameters", {}).get("stub_shift", 0.0))
        data = g.reshape((self.nE,) + (3,) * self.rank)
        return EnergyResult(self.Energies, data, transformTR=self.tr, transformInv=self.tr, smoothers=[self.smoother],
                            save_mode=self.save_mode, rank=self.rank, comment="stub")


STEER = ["natural", "hot", "random", "alternating", "hot2"]


class SteerCalc(Calculator):
    """a legitimate calculator whose value dictates which K-points the adaptive refinement selects
    (K.max = |value| * factor): the scheduler's handle on the refinement history."""

    def __init__(self, profile, seed, ndiv_prod=8, **kw):
        super().__init__(save_mode="", **kw)
        self.profile = profile
        rs = np.random.RandomState(seed)
        self.k0 = rs.uniform(0.05, 0.95, size=3)
        self.k1 = rs.uniform(0.05, 0.95, size=3)
        self.salt = int(rs.randint(1 << 30))
        self.boost = float(ndiv_prod) * 1.7
        self.comment = "steering calculator"

    def _close(self, K, k0):
        d = (np.asarray(K) - k0 + 0.5) % 1 - 0.5
        return 1.0 / (float(d @ d) + 1e-3)

    def __call__(self, data_K):
        Kp = data_K.Kpoint
        K = np.asarray(Kp.Kp_fullBZ, dtype=float)
        lev = max(int(Kp.refinement_level), 0)
        if self.profile == "hot":          # the deepest cell next to k0 always wins
            v = self.boost ** lev * self._close(K, self.k0)
        elif self.profile == "hot2":       # two hot spots refined in turn
            v = self.boost ** lev * (self._close(K, self.k0) + 0.9 * self._close(K, self.k1))
        elif self.profile == "alternating":
            v = self._close(K, self.k0 if lev % 2 == 0 else self.k1) * (self.boost ** (lev // 2))
        else:                              # random: value from a hash of the K-point
            h = np.sin(self.salt % 1000 + 12.9898 * K[0] + 78.233 * K[1] + 37.719 * K[2] + 0.618 * lev) * 43758.5453
            v = 0.1 + (h - np.floor(h))
        # two energies, so that none of the three refinement criteria (max, norm, norm of the derivative) is
        # identically zero: a zero criterion ties all K-points and selects by list position
        return EnergyResult(np.array([0.0, 1.0]), np.array([v, 0.618 * v], dtype=float), transformTR=transform_ident,
                            transformInv=transform_ident, save_mode="", rank=0, comment="steer")


class StubTab(Calculator):
    """stub tabulator: KBandResult with a unique periodic payload per (k, band, component); honours `ibands`
    like the real tabulators (TabulatorAll sets it)"""

    def __init__(self, field_seed, nband=2, rank=0, **kw):
        super().__init__(**kw)
        self.nband, self.rank = nband, rank
        self.ibands = None
        self.field = GField(field_seed, ncomp=nband * 3 ** rank, nterms=6, nmax=3)
        self.comment = "stub tabulator"

    def __call__(self, data_K):
        k = np.asarray(data_K.kpoints_all, dtype=float)
        g = self.field(k).reshape((len(k), self.nband) + (3,) * self.rank)
        if self.ibands is not None:
            g = g[:, np.asarray(self.ibands, dtype=int)]
        return KBandResult(g, transformTR=transform_ident, transformInv=transform_ident)

    def value_at(self, k):
        return self.field(np.atleast_2d(k)).reshape((-1, self.nband) + (3,) * self.rank)


# ----------------------------------------------------------------------------------------------
#  real calculators
# ----------------------------------------------------------------------------------------------
def fermi_grid(n=5, lo=-2.0, hi=2.0):
    # irrational offset so that no band energy sits on a bin edge
    return np.linspace(lo, hi, n) + 0.0137 * np.sqrt(2.0)


def real_calculators(names, Efermi, tetra=False):
    from wannierberri import calculators as calc
    S = calc.static
    table = {
        "ahc": lambda: S.AHC(Efermi=Efermi, tetra=tetra),
        "dos": lambda: S.DOS(Efermi=Efermi, tetra=tetra),
        "cumdos": lambda: S.CumDOS(Efermi=Efermi, tetra=tetra),
        "ohmic": lambda: S.Ohmic_FermiSea(Efermi=Efermi, tetra=tetra),
        "ohmic_surf": lambda: S.Ohmic_FermiSurf(Efermi=Efermi, tetra=tetra),
        "morb": lambda: S.Morb(Efermi=Efermi, tetra=tetra),
        "spin": lambda: S.Spin(Efermi=Efermi, tetra=tetra),
        "bcd": lambda: S.BerryDipole_FermiSea(Efermi=Efermi, tetra=tetra),
        "bcd_surf": lambda: S.BerryDipole_FermiSurf(Efermi=Efermi, tetra=tetra),
    }
    return {n: table[n]() for n in names}


def real_tabulators(names, ibands=None, mode="grid"):
    """TabulatorAll over fresh tabulators (Energy, berry, vel, spin, invmass, morb, derberry)"""
    from wannierberri.calculators import tabulate as T
    table = {
        "Energy": T.Energy, "berry": T.BerryCurvature, "vel": T.Velocity, "spin": T.Spin,
        "invmass": T.InvMass, "morb": T.OrbitalMoment, "derberry": T.DerBerryCurvature,
    }
    tabs = {n: table[n]() for n in names}
    return T.TabulatorAll(tabs, ibands=ibands, mode=mode)
