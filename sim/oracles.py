"""K-list invariants I1-I6 (property C06), computed from raw coordinates with the harness's own group
matrices (built from the generator names and the lattice, independently of wannierberri's PointGroup).
"""
import itertools
import numpy as np

# ---------------------------------------------------------------------------------------------------
#  own point group
# ---------------------------------------------------------------------------------------------------


def _rot(n, axis):
    axis = np.asarray(axis, dtype=float)
    axis = axis / np.linalg.norm(axis)
    th = 2 * np.pi / n
    K = np.array([[0, -axis[2], axis[1]], [axis[2], 0, -axis[0]], [-axis[1], axis[0], 0]])
    return np.eye(3) + np.sin(th) * K + (1 - np.cos(th)) * (K @ K)


_ELEM = {
    "Identity": (np.eye(3), False), "Inversion": (-np.eye(3), False), "TimeReversal": (np.eye(3), True),
    "Mx": (np.diag([-1., 1, 1]), False), "My": (np.diag([1., -1, 1]), False), "Mz": (np.diag([1., 1, -1]), False),
    "C2x": (_rot(2, [1, 0, 0]), False), "C2y": (_rot(2, [0, 1, 0]), False), "C2z": (_rot(2, [0, 0, 1]), False),
    "C3z": (_rot(3, [0, 0, 1]), False), "C4x": (_rot(4, [1, 0, 0]), False), "C4y": (_rot(4, [0, 1, 0]), False),
    "C4z": (_rot(4, [0, 0, 1]), False), "C6z": (_rot(6, [0, 0, 1]), False),
}


def _parse(name):
    R, TR = np.eye(3), False
    for part in name.split("*"):
        r, t = _ELEM[part]
        R = R @ r
        TR = TR != t
    return R, TR


def own_group(gens, real_lattice):
    """list of 3x3 matrices M acting on reduced k (row vectors): k' = k @ M (mod 1); closed under products"""
    A = np.asarray(real_lattice, dtype=float)
    B = 2 * np.pi * np.linalg.inv(A).T          # rows = reciprocal lattice vectors
    Binv = np.linalg.inv(B)
    elems = [(np.eye(3), False)] + [_parse(g) for g in gens]
    group = []

    def key(R, TR):
        return (tuple(np.round(R, 6).ravel()), TR)

    seen = {}
    todo = list(elems)
    while todo:
        R, TR = todo.pop()
        k = key(R, TR)
        if k in seen:
            continue
        seen[k] = (R, TR)
        for R2, TR2 in list(seen.values()):
            for a, b in (((R @ R2), TR != TR2), ((R2 @ R), TR != TR2)):
                if key(a, b) not in seen:
                    todo.append((a, b))
        if len(seen) > 200:
            raise RuntimeError("own_group: not a finite group")
    for R, TR in seen.values():
        Mc = -R if TR else R
        M = B @ Mc.T @ Binv
        Mi = np.round(M)
        if np.max(np.abs(M - Mi)) > 1e-6:
            raise RuntimeError("own_group: lattice is not invariant under the generators")
        group.append(Mi)
    # unique as actions on k
    uniq = {}
    for M in group:
        uniq[tuple(M.ravel())] = M
    return list(uniq.values())


def frac_dist(a, b):
    d = np.asarray(a) - np.asarray(b)
    d = d - np.round(d)
    return float(np.max(np.abs(d)))


def equivalent(a, b, ops, tol=1e-7):
    for M in ops:
        if frac_dist(np.asarray(a) @ M, b) < tol:
            return True
    return False


def orbit_size(a, ops, tol=1e-7):
    pts = []
    for M in ops:
        p = (np.asarray(a) @ M) % 1
        if not any(frac_dist(p, q) < tol for q in pts):
            pts.append(p)
    return len(pts)


# ---------------------------------------------------------------------------------------------------
#  snapshots
# ---------------------------------------------------------------------------------------------------
def snap(K):
    """(id, K, dK, factor, level, evaluated)"""
    return (id(K), np.array(K.K, dtype=float), np.array(getattr(K, "dK", np.zeros(3)), dtype=float), float(K.factor),
            int(K.refinement_level), bool(K.was_evaluated_flag))


def snap_list(K_list):
    return [snap(K) for K in K_list]


# ---------------------------------------------------------------------------------------------------
#  I1 / I2
# ---------------------------------------------------------------------------------------------------
def check_total(K_list, what=""):
    fs = np.array([float(K.factor) for K in K_list])
    if np.any(fs < 0):
        return ("negative_weight", f"{what}: K-point weight {fs.min():.3e} < 0")
    if abs(fs.sum() - 1.0) > 1e-12 * max(1, len(fs)) ** 0.5 + 1e-12:
        return ("total_weight", f"{what}: sum of K-point weights = 1 {fs.sum() - 1.0:+.3e} ({len(fs)} points)")
    return None


# ---------------------------------------------------------------------------------------------------
#  I3 initial grid
# ---------------------------------------------------------------------------------------------------
def check_initial(K_list, div, ops, use_symmetry):
    div = np.asarray(div, dtype=int)
    N = int(np.prod(div))
    covered = np.zeros(tuple(div), dtype=int)
    for K in K_list:
        n = np.asarray(K.K, dtype=float) * div
        ni = np.rint(n).astype(int)
        if np.max(np.abs(n - ni)) > 1e-9:
            return ("initial_offgrid", f"initial K-point {K.K} is not on the {div} grid")
        if np.max(np.abs(np.asarray(K.dK) - 1.0 / div)) > 1e-12:
            return ("initial_dK", f"initial K-point {K.K} has dK={K.dK}, expected {1.0 / div}")
        orb = set()
        for M in (ops if use_symmetry else [np.eye(3)]):
            m = (np.asarray(K.K, dtype=float) @ M) * div
            mi = np.rint(m).astype(int)
            if np.max(np.abs(m - mi)) > 1e-7:
                return ("initial_offgrid", f"image of {K.K} under the group leaves the grid {div}: grid not symmetric?")
            orb.add(tuple(mi % div))
        for p in orb:
            covered[p] += 1
        if abs(K.factor - len(orb) / N) > 1e-13:
            return ("initial_weight", f"initial K-point {K.K}: weight {K.factor!r} but its orbit has {len(orb)} of {N} grid points")
    if np.any(covered != 1):
        bad = np.argwhere(covered != 1)[0]
        return ("initial_cover", f"grid point {tuple(bad)} of the {tuple(div)} grid is covered {covered[tuple(bad)]} times by "
                                 f"the stars of the retained K-points")
    return None


# ---------------------------------------------------------------------------------------------------
#  I4 divide
# ---------------------------------------------------------------------------------------------------
def check_divide(parent_before, parent_after, children, ndiv, periodic, ops, use_symmetry):
    """parent_before/after: snap tuples; children: list of K-point objects returned by divide()"""
    _, K0, dK, f0, lev, _ = parent_before
    nd = np.array(ndiv, dtype=int).copy()
    nd[~np.asarray(periodic, dtype=bool)] = 1
    dKc = dK / nd
    nexp = int(np.prod(nd))
    w = f0 / nexp
    if parent_after[3] != 0:
        return ("divide_parent", f"divided K-point {K0} keeps weight {parent_after[3]!r}")
    # harness's own tiling of the parent cell
    E = [K0 - dK / 2 + dKc * (np.array(x) + 0.5) for x in itertools.product(*[range(n) for n in nd])]
    got = []
    for c in children:
        if c.refinement_level != lev + 1:
            return ("divide_level", f"child of a level-{lev} K-point has level {c.refinement_level}")
        if np.max(np.abs(np.asarray(c.dK) - dKc)) > 1e-13:
            return ("divide_dK", f"child cell size {c.dK}, expected {dKc} (parent {dK}, ndiv {nd}, periodic {periodic})")
        lo, hi = np.asarray(c.K) - dKc / 2, np.asarray(c.K) + dKc / 2
        if np.any(lo < K0 - dK / 2 - 1e-12) or np.any(hi > K0 + dK / 2 + 1e-12):
            return ("divide_outside", f"child cell centred at {c.K} is not inside the parent cell centred at {K0}")
        j = [i for i, e in enumerate(E) if np.max(np.abs(e - np.asarray(c.K))) < min(1e-12, 1e-3 * float(np.min(dKc)))]
        if len(j) != 1:
            return ("divide_offcell", f"child centre {c.K} is not a sub-cell centre of the parent {K0} (ndiv {nd})")
        got.append(j[0])
    if len(set(got)) != len(got):
        return ("divide_overlap", f"two children of {K0} occupy the same sub-cell")
    fsum = sum(float(c.factor) for c in children)
    if abs(fsum - f0) > 1e-15 * max(1, nexp) + 1e-13 * abs(f0):
        return ("divide_weight", f"children of {K0} carry {fsum!r}, the parent had {f0!r}")
    if not use_symmetry or len(ops) <= 1:
        if len(children) != nexp:
            return ("divide_count", f"{len(children)} sub-cells for ndiv={nd} (expected {nexp}): they do not tile the parent cell")
        for c in children:
            if abs(c.factor - w) > 1e-15 + 1e-13 * abs(w):
                return ("divide_weight", f"child weight {c.factor!r}, expected {w!r}")
        return None
    # siblings merged: every sub-cell must be represented by exactly one survivor, with the multiplicity as weight
    mult = [0] * len(children)
    tol = min(1e-7, 1e-3 * float(np.min(dKc)))      # stays far below the sub-cell size however deep the refinement is
    for i, e in enumerate(E):
        reps = [ic for ic, c in enumerate(children) if equivalent(e, c.K, ops, tol=tol)]
        if len(reps) != 1:
            return ("divide_merge", f"sub-cell {e} of {K0} is represented by {len(reps)} surviving children")
        mult[reps[0]] += 1
    for m, c in zip(mult, children):
        if abs(c.factor - m * w) > 1e-15 + 1e-13 * abs(m * w):
            return ("divide_merge_weight", f"child {c.K} stands for {m} sub-cells of weight {w!r} but carries {c.factor!r}")
    return None


# ---------------------------------------------------------------------------------------------------
#  I5 merge (exclude_equiv_points)
# ---------------------------------------------------------------------------------------------------
def check_merge(before, K_list_after, ops, stats=None):
    """before: snap_list of the list before exclude_equiv_points; after: the list object afterwards"""
    after = {id(K): K for K in K_list_after}
    tot0 = sum(s[3] for s in before)
    tot1 = sum(float(K.factor) for K in K_list_after)
    if abs(tot0 - tot1) > 1e-13 * max(1.0, abs(tot0)):
        return ("merge_total", f"merging equivalent points changed the total weight by {tot1 - tot0:+.3e}")
    removed = [s for s in before if s[0] not in after]
    gained = {}
    for s in before:
        if s[0] in after:
            d = float(after[s[0]].factor) - s[3]
            if d < -1e-15:
                return ("merge_loss", f"K-point {s[1]} lost weight {d:.3e} in a merge")
            if d > 1e-15:
                gained[s[0]] = d
    # every removed point needs a surviving symmetry-related partner.  (The property speaks of symmetry-equivalent
    # points and of weight; that the partner also has the same level / cell size is what the code intends, but with a
    # mesh that changes between steps same-centre cells of different size do get merged without any weight being
    # lost - recorded through `stats`, not demanded.)
    owed = {}
    for s in removed:
        tol = min(1e-7, 1e-3 * float(np.min(s[2]))) if np.all(np.asarray(s[2]) > 0) else 1e-7
        partners = [K for K in K_list_after if equivalent(s[1], K.K, ops, tol=tol)]
        if stats is not None and partners and not any(
                K.refinement_level == s[4] and np.max(np.abs(np.asarray(K.dK) - s[2])) < 1e-12 for K in partners):
            stats["merge_different_cell_size"] = stats.get("merge_different_cell_size", 0) + 1
        if not partners:
            return ("merge_no_partner", f"removed K-point {s[1]} (level {s[4]}, weight {s[3]!r}) has no symmetry-equivalent "
                                        f"survivor")
        # attribute its weight to the partner(s) that gained weight
        pid = [id(K) for K in partners if id(K) in gained]
        if s[3] > 0 and not pid:
            return ("merge_weight_lost", f"weight {s[3]!r} of removed K-point {s[1]} was not transferred to an equivalent survivor")
        if pid:
            owed[pid[0]] = owed.get(pid[0], 0.0) + s[3]
    for k, g in gained.items():
        if abs(g - owed.get(k, 0.0)) > 1e-13 * max(1.0, g):
            return ("merge_weight", f"a surviving K-point gained {g!r}, the points merged into it carried {owed.get(k, 0.0)!r}")
    return None


# ---------------------------------------------------------------------------------------------------
#  I6 tetrahedra
# ---------------------------------------------------------------------------------------------------
def tetra_volume(v):
    v = np.asarray(v, dtype=float)
    return abs(np.linalg.det(v[1:] - v[0][None, :])) / 6.


def bary(v, q):
    v = np.asarray(v, dtype=float)
    T = (v[1:] - v[0]).T
    lam = np.linalg.solve(T, np.asarray(q, dtype=float) - v[0])
    return np.concatenate([[1 - lam.sum()], lam])


def abs_vertices(K):
    return np.asarray(K.vertices, dtype=float) + np.asarray(K.K, dtype=float)[None, :]


def check_tetra_set(K_list, claims_cell, rs, nsample=60, weights_uniform=True, shifts=(-2, -1, 0, 1, 2)):
    vols = np.array([tetra_volume(abs_vertices(K)) for K in K_list])
    fs = np.array([float(K.factor) for K in K_list])
    if np.any(vols <= 1e-14):
        return ("tetra_degenerate", "a tetrahedron has zero volume")
    if weights_uniform:
        r = fs / vols
        if np.max(np.abs(r / r[0] - 1)) > 1e-10:
            return ("tetra_weight_volume", "tetrahedron weights are not proportional to their volumes")
    if claims_cell:
        if abs(vols.sum() - 1.0) > 1e-10:
            return ("tetra_cover_volume", f"tetrahedra claim to cover the reciprocal cell but their volumes add up to {vols.sum()!r}")
        V = [abs_vertices(K) for K in K_list]
        for _ in range(nsample):
            q = rs.uniform(-0.5, 0.5, size=3)
            inside = 0
            for v in V:
                # the set tiles the cell modulo lattice translations: test the images of q in the neighbouring cells
                for s in itertools.product(shifts, repeat=3):
                    lam = bary(v, q + np.array(s))
                    if np.all(lam > 1e-9):
                        inside += 1
            if inside != 1:
                return ("tetra_cover", f"point {q} of the reciprocal cell lies in {inside} tetrahedra (mod lattice translations)")
    return None


def check_tetra_divide(parent_vertices, parent_factor, parent_after_factor, children, ndiv, rs, nsample=12):
    vp = tetra_volume(parent_vertices)
    if parent_after_factor != 0:
        return ("tetra_parent", f"split tetrahedron keeps weight {parent_after_factor!r}")
    if len(children) != ndiv:
        return ("tetra_count", f"{len(children)} children for ndiv={ndiv}")
    vs = [tetra_volume(abs_vertices(c)) for c in children]
    if abs(sum(vs) - vp) > 1e-12 * max(vp, 1e-30) + 1e-18:
        return ("tetra_volume", f"children volumes add up to {sum(vs)!r}, the parent has {vp!r}")
    for c, v in zip(children, vs):
        if abs(v - vp / ndiv) > 1e-10 * vp:
            return ("tetra_volume_split", "children do not have equal volume")
        if abs(c.factor - parent_factor / ndiv) > 1e-15 + 1e-13 * abs(parent_factor):
            return ("tetra_weight_split", f"child weight {c.factor!r}, expected {parent_factor / ndiv!r}")
        for x in abs_vertices(c):
            if np.any(bary(parent_vertices, x) < -1e-9):
                return ("tetra_outside", "a child tetrahedron has a vertex outside its parent")
    for _ in range(nsample):
        lam = rs.dirichlet(np.ones(4))
        q = lam @ np.asarray(parent_vertices)
        inside = sum(1 for c in children if np.all(bary(abs_vertices(c), q) > 1e-9))
        if inside != 1:
            return ("tetra_tile", f"a point of the parent tetrahedron lies in {inside} children")
    return None
