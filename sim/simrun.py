"""run()-level harness: installs the seams around wannierberri.run_grid and observes one call of run().

Seams (all existing name bindings, no /repo hook):
  sys.modules['ray']            -> SimRay facade
  run_grid.time                 -> virtual clock
  run_grid.glob / open (...)    -> SimDisk
  run_grid.process              -> wrapper: captures the K-list object (mutated in place by run())
  run_grid.write_factors        -> wrapper: crash site
  ResultDict.savedata           -> wrapper: per-iteration observation point
  KpointBZ.set_result           -> wrapper: copies the payload the driver received for each K-point
"""
import numpy as np

from . import simray as _simray
from .simray import SimRay, VClock, SimCrash, SimLivelock  # noqa: F401
from .simdisk import SimDisk

import wannierberri as wb
from wannierberri import run_grid as _rg
from wannierberri.grid import Kpoint as _kp
from wannierberri.result import resultdict as _rd
from wannierberri.result import EnergyResult


def smooth_arrays(resultdict):
    """{key: copy of dataSmooth} for the integrated entries that run() itself has just written as text (so that reading
    the cached property here does not do anything run() has not done already)"""
    out = {}
    for k, v in resultdict.results.items():
        if isinstance(v, EnergyResult) and "txt" in v.save_mode:
            out[k] = np.array(v.dataSmooth, copy=True)
    return out


def energy_arrays(resultdict):
    """{key: ndarray copy} of the integrated (EnergyResult-like) entries of a ResultDict"""
    out = {}
    for k, v in resultdict.results.items():
        if isinstance(v, EnergyResult):
            out[k] = np.array(v.data, copy=True)
    return out


class Observation:
    """what one call of run() did, as seen at the seams"""

    def __init__(self):
        self.iterations = []      # dicts: i_iter, data, klist (snapshot), nK
        self.payload = {}         # id(Kp) -> (Kp, {key: array})
        self.set_result_calls = []  # id(Kp) in call order
        self.K_list = None
        self.nprocess = 0
        self.returned = None
        self.exception = None


class Harness:
    def __init__(self, dec, rec, clock=None, disk=None, ray=None, snapshot_klist=True, on_iteration=None,
                 extra_patches=()):
        self.dec, self.rec = dec, rec
        self.clock = clock or VClock()
        self.disk = disk
        self.ray = ray
        self.obs = Observation()
        self.snapshot_klist = snapshot_klist
        self.on_iteration = on_iteration
        self.extra_patches = list(extra_patches)   # (obj, name, factory(original, harness) -> replacement)
        self._saved = []

    # ------------------------------------------------------------------ install / uninstall
    def _patch(self, obj, name, new):
        self._saved.append((obj, name, obj.__dict__.get(name, _MISSING) if isinstance(obj, type) else getattr(obj, name)))
        setattr(obj, name, new)

    def __enter__(self):
        h = self
        obs = self.obs
        _simray.install(self.ray if self.ray is not None else _OfflineRay())
        self._patch(_rg, "time", self.clock.time)
        if self.disk is not None:
            self.disk.install()

        orig_process = _rg.process

        def process(paralfunc, K_list, *a, **kw):
            obs.K_list = K_list
            obs.nprocess += 1
            if h.disk is not None:
                h.disk.op("process_enter")
            r = orig_process(paralfunc, K_list, *a, **kw)
            if h.disk is not None:
                h.disk.op("process_exit")
            return r

        self._patch(_rg, "process", process)

        orig_wf = _rg.write_factors

        def write_factors(*a, **kw):
            if h.disk is not None:
                h.disk.op("write_factors")
            return orig_wf(*a, **kw)

        self._patch(_rg, "write_factors", write_factors)

        orig_set_result = _kp.KpointBZ.set_result

        def set_result(self_, res):
            if h.disk is not None:
                h.disk.op("set_result")
            obs.payload[id(self_)] = (self_, energy_arrays(res) if hasattr(res, "results") else {})
            obs.set_result_calls.append(id(self_))
            return orig_set_result(self_, res)

        self._patch(_kp.KpointBZ, "set_result", set_result)

        orig_savedata = _rd.ResultDict.savedata

        def savedata(self_, prefix, suffix, i_iter):
            if h.disk is not None:
                h.disk.op("savedata_enter")
            r = orig_savedata(self_, prefix, suffix, i_iter)
            it = dict(i_iter=int(i_iter), data=energy_arrays(self_), smooth=smooth_arrays(self_), prefix=prefix, suffix=suffix)
            if h.snapshot_klist and obs.K_list is not None:
                it["klist"] = [(id(K), float(K.factor)) for K in obs.K_list]
            if h.snapshot_klist and obs.K_list is not None and len(obs.K_list) > 0:
                it["selection_gap"] = selection_gap(obs.K_list)
            obs.iterations.append(it)
            h.rec.ev("iter", int(i_iter), len(obs.K_list) if obs.K_list is not None else -1)
            if h.on_iteration is not None:
                h.on_iteration(h, it)
            if h.disk is not None:
                h.disk.op("savedata_exit")     # iteration boundary: the iteration is complete on disk
            return r

        self._patch(_rd.ResultDict, "savedata", savedata)
        for obj, name, factory in self.extra_patches:
            orig = obj.__dict__[name] if isinstance(obj, type) else getattr(obj, name)
            self._patch(obj, name, factory(orig, self))
        return self

    def __exit__(self, *a):
        for obj, name, old in reversed(self._saved):
            if old is _MISSING:
                delattr(obj, name)
            else:
                setattr(obj, name, old)
        self._saved = []
        if self.disk is not None:
            self.disk.uninstall()
        _simray.uninstall()
        return False

    # ------------------------------------------------------------------ the call
    def run(self, system, grid, calculators, **kw):
        """call wannierberri.run() under the installed seams; returns the ResultDict (exceptions propagate)"""
        self.obs.returned = None
        res = wb.run(system, grid, calculators, **kw)
        self.obs.returned = res
        return res


class _Missing:
    pass


_MISSING = _Missing()


class _OfflineRay:
    """`import ray` succeeds, ray is not initialised: run() falls back to / stays in serial mode"""

    def is_initialized(self):
        return False

    def cluster_resources(self):
        return {"CPU": 1.0}

    def _no(self, *a, **k):
        raise RuntimeError("ray is not initialised in this simulated run")

    put = remote = get = wait = _no

    def init(self, **kw):
        raise RuntimeError("unexpected ray.init in a serial simulated run")

    def shutdown(self):
        pass


# ---------------------------------------------------------------------------------------------------
#  oracle helpers shared by several drivers
# ---------------------------------------------------------------------------------------------------
def selection_gap(K_list):
    """smallest relative gap, over the refinement criteria, between neighbouring values of K.max (sorted).  Refinement
    selects the top adpt_fac K-points per criterion and breaks exact ties by list position / sort internals, so a run
    whose gap is ~0 may legitimately refine differently when the list order differs (e.g. after a mid-iteration kill)."""
    try:
        Kmax = np.array([K.max for K in K_list], dtype=float).T
    except Exception:
        return None
    gap = np.inf
    for Km in Kmax:
        v = np.sort(Km[Km != 0]) if np.any(Km != 0) else np.zeros(0)
        if len(Km) > 1 and not np.any(Km != 0):
            return 0.0          # identically zero criterion: every K-point ties
        if len(v) > 1:
            d = np.diff(v) / np.maximum(np.abs(v[1:]), np.abs(v[:-1]))     # relative to the neighbours themselves
            gap = min(gap, float(np.min(d)))
    return None if gap == np.inf else gap


def weighted_sum(obs, klist_snapshot, key):
    """sum_i factor_i * payload_i in plain numpy; returns (sum, scale) with scale = sum |f_i| * max|payload_i|"""
    tot = None
    scale = 0.0
    for kid, fac in klist_snapshot:
        if kid not in obs.payload:
            if fac != 0:
                raise KeyError("K-point with non-zero weight was never evaluated")
            continue
        arr = obs.payload[kid][1][key]
        term = fac * arr
        tot = term if tot is None else tot + term
        scale += abs(fac) * float(np.max(np.abs(arr))) if arr.size else 0.0
    return tot, scale


def close(a, b, scale, rtol=1e-10, atol=1e-13):
    a = np.asarray(a)
    b = np.asarray(b)
    if a.shape != b.shape:
        return False, float("inf")
    if a.size == 0:
        return True, 0.0
    err = float(np.max(np.abs(a - b)))
    # atol: results that symmetry cancels to rounding noise (scale ~ 1e-16) carry no information
    return bool((err <= rtol * scale + atol) and np.all(np.isfinite(a)) and np.all(np.isfinite(b))), err
