"""Runner: forks one child per simulated run from a warm parent image, collects verdicts, writes evidence.

* the parent imports wannierberri once; every run is an os.fork() child, so module-level caches,
  `evaluate_k.available_quantities`, FFTW state and numpy's RNG are identical at the start of every
  run and no run can influence another;
* a child that dies, produces no report or exceeds its wall budget is a HARNESS-ERROR (exit 2),
  never "held";
* only a property violation prints `VIOLATION property=<id> replay=<path>` and gives exit 1.
"""
import faulthandler
import json
import os
import selectors
import signal
import sys
import time
import traceback

from .decisions import Decisions, run_seed
from .recorder import Recorder

RUN_WALL_S = float(os.environ.get("VERIF_RUN_WALL_S", "300"))


def run_body(driver, table_or_seed, replay, extra):
    """execute one simulated run in this process and return its report (a dict)"""
    dec = Decisions(table=table_or_seed) if replay else Decisions(seed=table_or_seed)
    rec = Recorder()
    t_sim = time.time()
    try:
        out = driver.simulate(dec, rec, **extra)
    except BaseException as e:   # a bug in the harness or an unexpected exception type: not a verdict
        if isinstance(e, (KeyboardInterrupt, SystemExit)):
            raise
        out = dict(verdict="harness_error", kind="exception",
                   message=f"{type(e).__name__}: {e}", traceback=traceback.format_exc()[-3000:])
    out.setdefault("counters", {})
    for k, v in rec.fired.items():
        out["counters"][k] = out["counters"].get(k, 0) + v
    out["sim_s"] = time.time() - t_sim
    out["digest"] = rec.digest()
    out["nevents"] = rec.n
    out["decisions"] = dec.nonzero()
    out["decisions"].update(out.pop("decisions_extra", None) or {})
    out["ndecisions"] = len(dec.taken)
    out["event_head"] = rec.head[:60]
    return out


def _quiet_process():
    """wannierberri is chatty: send fd 1 to /dev/null (cheaper than StringIO), silence warnings"""
    devnull = os.open(os.devnull, os.O_WRONLY)
    os.dup2(devnull, 1)
    import warnings
    warnings.simplefilter("ignore")


def _child(driver, table_or_seed, replay, wfd, extra):
    """body of a forked child: run one simulation, report through the pipe, _exit"""
    try:
        signal.signal(signal.SIGINT, signal.SIG_DFL)
        faulthandler.enable(all_threads=False)
        faulthandler.dump_traceback_later(RUN_WALL_S - 5, exit=False)
        _quiet_process()
        out = run_body(driver, table_or_seed, replay, extra)
        data = json.dumps(out, default=_jsonable).encode()
        os.write(wfd, len(data).to_bytes(8, "big"))
        off = 0
        while off < len(data):
            off += os.write(wfd, data[off:off + 65536])
    except BaseException:
        try:
            sys.stderr.write("child failed to report:\n" + traceback.format_exc())
        except Exception:
            pass
    finally:
        os._exit(0)


def _jsonable(o):
    import numpy as np
    if isinstance(o, (np.integer,)):
        return int(o)
    if isinstance(o, (np.floating,)):
        return float(o)
    if isinstance(o, np.bool_):
        return bool(o)
    if isinstance(o, np.ndarray):
        return o.tolist()
    if isinstance(o, (set, frozenset)):
        return sorted(o)
    return repr(o)


class Job:
    __slots__ = ("tag", "payload", "replay", "extra")

    def __init__(self, tag, payload, replay=False, extra=None):
        self.tag, self.payload, self.replay, self.extra = tag, payload, replay, extra or {}


# ---------------------------------------------------------------------------------------------------
#  one forked run (used inside a lane, and directly for single replays)
# ---------------------------------------------------------------------------------------------------
def fork_run(driver, payload, replay, extra, wall=None):
    """fork a child for one simulated run and wait for its report; returns the result dict"""
    wall = RUN_WALL_S if wall is None else wall
    r, w = os.pipe()
    t0 = time.time()
    pid = os.fork()
    if pid == 0:
        os.close(r)
        _child(driver, payload, replay, w, extra)
    os.close(w)
    buf = bytearray()
    why = None
    sel = selectors.DefaultSelector()
    sel.register(r, selectors.EVENT_READ)
    while True:
        left = wall - (time.time() - t0)
        if left <= 0:
            try:
                os.kill(pid, signal.SIGKILL)
            except ProcessLookupError:
                pass
            why = f"run exceeded its wall budget of {wall:.0f} s (killed)"
            break
        if not sel.select(timeout=min(left, 5.0)):
            continue
        chunk = os.read(r, 1 << 16)
        if not chunk:
            break
        buf += chunk
    sel.close()
    os.close(r)
    try:
        _, status = os.waitpid(pid, 0)
    except ChildProcessError:
        status = 0
    res = None
    if why is None:
        if len(buf) >= 8:
            n = int.from_bytes(buf[:8], "big")
            if len(buf) - 8 == n:
                try:
                    res = json.loads(bytes(buf[8:]).decode())
                except Exception as e:  # pragma: no cover
                    why = f"unparsable report: {e}"
            else:
                why = f"truncated report ({len(buf) - 8} of {n} bytes), wait status {status}"
        else:
            why = f"child produced no report, wait status {status}"
    if res is None:
        res = dict(verdict="harness_error", kind="child", message=why, counters={}, decisions={})
    res["wall_s"] = time.time() - t0
    return res


# ---------------------------------------------------------------------------------------------------
#  lanes: long-lived, separately exec'd interpreters (so that the children of different lanes share no
#  copy-on-write ancestry: children forked from one common parent serialise on its page-table locks and
#  ran 4-6x slower on 16 cores)
# ---------------------------------------------------------------------------------------------------
def _send(fd, obj):
    data = json.dumps(obj, default=_jsonable).encode()
    data = len(data).to_bytes(8, "big") + data
    off = 0
    while off < len(data):
        off += os.write(fd, data[off:off + 65536])


def _recv_exact(fd, n):
    buf = bytearray()
    while len(buf) < n:
        chunk = os.read(fd, n - len(buf))
        if not chunk:
            return None
        buf += chunk
    return bytes(buf)


def _recv(fd):
    h = _recv_exact(fd, 8)
    if h is None:
        return None
    body = _recv_exact(fd, int.from_bytes(h, "big"))
    if body is None:
        return None
    return json.loads(body.decode())


def lane_main(driver, rfd, wfd):
    """body of a lane process: serve jobs until the job pipe closes.

    Runs execute *inline* in the lane (fresh pages are pathologically slow to fault in under concurrency in this
    sandbox, so a fork per run costs 4-40x); every run restores the seams it installs and seeds every RNG use,
    and the determinism self-test (same seeds on 16 and on 4 lanes, i.e. different run histories per lane)
    checks that no state leaks between runs.  Drivers whose property is about process-global state set
    ISOLATION = "fork" and get a forked child per run."""
    isolation = getattr(driver, "ISOLATION", "inline")
    faulthandler.enable(all_threads=False)
    _quiet_process()
    if isolation == "fork":
        import gc
        gc.collect()
        gc.freeze()
    _send(wfd, dict(ready=True, pid=os.getpid()))
    while True:
        msg = _recv(rfd)
        if msg is None:
            break
        if isolation == "fork":
            res = fork_run(driver, msg["payload"], msg["replay"], msg.get("extra") or {})
        else:
            t0 = time.time()
            faulthandler.dump_traceback_later(RUN_WALL_S - 5, exit=False)
            res = run_body(driver, msg["payload"], msg["replay"], msg.get("extra") or {})
            faulthandler.cancel_dump_traceback_later()
            res["wall_s"] = time.time() - t0
        res["_id"] = msg["id"]
        _send(wfd, res)
    os._exit(0)


class LanePool:
    def __init__(self, prop, lanes):
        import subprocess
        self.prop = prop
        self.lanes = []
        launcher = os.path.join(os.path.dirname(os.path.dirname(os.path.abspath(__file__))), "check.py")
        for i in range(lanes):
            jr, jw = os.pipe()     # jobs: main -> lane
            rr, rw = os.pipe()     # results: lane -> main
            p = subprocess.Popen([sys.executable, launcher, prop, "--lane", f"{jr},{rw}"], pass_fds=(jr, rw),
                                 stdout=subprocess.DEVNULL)
            os.close(jr)
            os.close(rw)
            self.lanes.append(dict(proc=p, jw=jw, rr=rr, busy=None, ready=False, dead=False))
        for ln in self.lanes:      # wait for the lanes to finish importing
            msg = _recv(ln["rr"])
            if not msg or not msg.get("ready"):
                ln["dead"] = True
            ln["ready"] = True
        if all(ln["dead"] for ln in self.lanes):
            raise RuntimeError("no lane process could be started")

    def close(self):
        for ln in self.lanes:
            try:
                os.close(ln["jw"])
            except OSError:
                pass
        for ln in self.lanes:
            try:
                ln["proc"].wait(timeout=20)
            except Exception:
                ln["proc"].kill()
            try:
                os.close(ln["rr"])
            except OSError:
                pass

    def __enter__(self):
        return self

    def __exit__(self, *a):
        self.close()

    def run_jobs(self, jobs, deadline=None, on_result=None, stop_when=None):
        sel = selectors.DefaultSelector()
        for ln in self.lanes:
            if not ln["dead"]:
                sel.register(ln["rr"], selectors.EVENT_READ, ln)
        jobs = iter(jobs)
        exhausted = False
        stopped = False
        nid = 0
        while True:
            for ln in self.lanes:
                if exhausted or stopped:
                    break
                if ln["dead"] or ln["busy"] is not None:
                    continue
                if deadline is not None and time.time() > deadline:
                    exhausted = True
                    break
                try:
                    job = next(jobs)
                except StopIteration:
                    exhausted = True
                    break
                nid += 1
                ln["busy"] = (nid, job, time.time())
                _send(ln["jw"], dict(id=nid, payload=job.payload, replay=job.replay, extra=job.extra))
            if not any(ln["busy"] is not None for ln in self.lanes):
                break
            for key, _ in sel.select(timeout=1.0):
                ln = key.data
                msg = _recv(ln["rr"])
                nid_, job, t0 = ln["busy"]
                ln["busy"] = None
                if msg is None:      # the lane itself died
                    ln["dead"] = True
                    sel.unregister(ln["rr"])
                    msg = dict(verdict="harness_error", kind="lane", message="lane process died", counters={},
                               decisions={}, wall_s=time.time() - t0)
                if on_result is not None:
                    on_result(job, msg)
            now = time.time()
            for ln in self.lanes:
                if ln["busy"] is not None and not ln["dead"] and now - ln["busy"][2] > RUN_WALL_S + 10:
                    nid_, job, t0 = ln["busy"]
                    ln["proc"].kill()
                    ln["dead"] = True
                    ln["busy"] = None
                    sel.unregister(ln["rr"])
                    if on_result is not None:
                        on_result(job, dict(verdict="harness_error", kind="timeout", counters={}, decisions={},
                                            message=f"run exceeded its wall budget of {RUN_WALL_S:.0f} s (lane killed)",
                                            wall_s=now - t0))
            if stop_when is not None and not stopped and stop_when():
                stopped = True
            if all(ln["dead"] for ln in self.lanes):
                break
        sel.close()


def run_jobs(driver, jobs, lanes=1, deadline=None, on_result=None, stop_when=None, pool=None):
    """run jobs on a lane pool when given, otherwise sequentially by forking from this process"""
    if pool is not None:
        return pool.run_jobs(jobs, deadline=deadline, on_result=on_result, stop_when=stop_when)
    for job in jobs:
        if deadline is not None and time.time() > deadline:
            break
        res = fork_run(driver, job.payload, job.replay, job.extra)
        if on_result is not None:
            on_result(job, res)
        if stop_when is not None and stop_when():
            break


def run_one_inline(driver, table=None, seed=None, **extra):
    """single run in a forked child; returns the result dict (used by replay)"""
    return fork_run(driver, table if table is not None else seed, table is not None, extra)


def seeds_for(prop, verif_seed, start=0):
    i = start
    while True:
        yield i, run_seed(verif_seed, prop, i)
        i += 1
